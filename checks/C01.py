"""C01 — time limit bounds every evaluation, whatever the script does.

Monitors (all on the real engine, hooks on):
  1. virtual-clock step monitor: one tick per VM instruction / regex step = 1 us of engine time;
     invariant asserted inside the hook: ticks - deadline <= B.  Breach => VerifAbort => violation
     carrying the host stack at the abort (the unpolled path).
  2. outcome oracle at the Context.eval boundary: past deadline+POLL => must have raised exactly
     TimeLimitError (or MemoryLimitError when a memory limit is set); returned => END was logged.
  3. swallow monitor: the tick at which the engine first constructs TimeLimitError is recorded;
     any interpreter step or log entry after it means script code kept running after the stop.
  4. real-clock tier: same scripts with a real time_limit, elapsed measured with the real clock.
"""
import random

from vf import places
from vf.common import h
from vf.runner import engine_pool

LEVEL = "exploration"
# Allowed overrun after the virtual deadline.  The engine polls the clock every 1000 VM
# instructions, every 100 steps of each regex loop and between regex search attempts.
VM_B = 1100        # VM instructions executed after the deadline
RX_MAIN_B = 300    # consecutive main-loop regex steps after the deadline (no VM step in between)
RX_B = 400         # consecutive regex steps of any loop (lookaround bodies share the attempt's step counter)
B = VM_B
POLL = 1100       # an error class is only judged if it surfaced later than deadline + one poll period

LOOP_CORES = [
    ("while-true", "while (true) {}"),
    # exponentially many SHORT nested evaluations (each far below any per-interpreter poll interval), bounded depth
    ("eval-fanout", "var fd = 0; var fcode = 'if (fd < 40) { fd++; fa.forEach(eval); fd--; }'; var fa = [fcode, fcode]; fa.forEach(eval);"),
    ("function-fanout", "var gd = 0; var gf = new Function('if (gd < 40) { gd++; [gf, gf].forEach(function (g) { new Function(\'gf()\')(); }); gd--; }'); gf();"),
    ("callback-fanout", "var hd = 0; function hf() { if (hd < 40) { hd++; [1, 2].forEach(hf); [1].map(hf); hd--; } } hf();"),
    ("getter-fanout", "var jd = 0; var jo = {get g() { if (jd < 40) { jd++; jo.g; jo.g; jd--; } return 1; }}; jo.g;"),
    ("sort-fanout", "var kd = 0; function kf(a, b) { if (kd < 40) { kd++; [3, 1, 2].sort(kf); kd--; } return a - b; } [2, 1, 3].sort(kf);"),
    ("replace-fanout", "var ld = 0; function lf(m) { if (ld < 40) { ld++; 'ab'.replace(/./g, lf); ld--; } return m; } 'ab'.replace(/./g, lf);"),
    ("for-ever", "for (;;) ;"),
    ("do-while", "do {} while (1);"),
    ("self-recursion", "function r(n){ return r(n + 1); } r(0);"),
    ("mutual-recursion", "function ra(n){ return rb(n + 1); } function rb(n){ return ra(n + 1); } ra(0);"),
    ("operand-recursion", "function rr(n){ return 1 + rr(n + 1); } rr(0);"),
    ("callback-recursion", "function cr(){ [1].forEach(cr); } cr();"),
    ("closure-loop", "var k = 0; var inc = function(){ k++; }; while (true) { inc(); }"),
    ("slow-loop", "for (var i = 0; i < 1000000000; i++) { var z = i * 2; }"),
    ("nested-loops", "for (var i = 0; i < 100000; i++) { for (var j = 0; j < 100000; j++) { } }"),
    ("string-build", "var s = ''; while (true) { s = 'a'; }"),
    ("array-churn", "var arr = []; while (true) { arr.push(1); arr.pop(); }"),
    ("forin-loop", "var ob = {a:1,b:2}; while (true) { for (var kk in ob) {} }"),
    ("try-in-loop", "while (true) { try { throw 1; } catch (ee) {} }"),
    ("sort-loop", "while (true) { [3,1,2].sort(function(a,b){ return a-b; }); }"),
    ("eval-loop", "while (true) { eval('1+1'); }"),
]
A28 = "a" * 28
REGEX_CORES = [
    ("rx-nested-quant", "/(a+)+b/", A28),
    ("rx-overlap-alt", "/(a|a)*b/", A28),
    ("rx-alt-2", "/(a|aa)+b/", A28),
    ("rx-star-star", "/(a*)*b/", A28),
    ("rx-dotstar", "/(.*)*x/", A28),
    ("rx-backref", "/(a*)\\1*b/", A28),
    ("rx-lookahead-body", "/(?=(a+)+b)a/", A28),
    ("rx-in-lookbehind", "/(?<=(a|a)*b)c/", A28 + "c"),
    # lookarounds entered again and again inside a catastrophic loop (their steps must count towards the same poll interval)
    ("rx-lookahead-in-loop", "/^(?:(?=a)a+)+$/", A28 + "!"),
    ("rx-neg-lookahead-in-loop", "/^(?:(?!b)a+)+$/", A28 + "!"),
    ("rx-lookbehind-in-loop", "/^(?:a+(?<=a))+$/", A28 + "!"),
    ("rx-lookahead-alt-in-loop", "/^(?:(?=a)a|(?=a)aa)+$/", A28 + "!"),
]


def regex_uses(lit, subj):
    """Every regex-consuming API applied to literal `lit` and subject `subj` (statement lists)."""
    pat = lit[1:-1]
    s = places.q(subj)
    ps = places.q(pat)
    return [
        ("lit.test", "%s.test(%s);" % (lit, s)),
        ("lit.exec", "%s.exec(%s);" % (lit, s)),
        ("RegExp()", "RegExp(%s).test(%s);" % (ps, s)),
        ("new RegExp", "new RegExp(%s).exec(%s);" % (ps, s)),
        ("RegExp-after-eval", "eval('1'); RegExp(%s).test(%s);" % (ps, s)),
        ("RegExp-after-newFunction", "new Function('return 1')(); new RegExp(%s).exec(%s);" % (ps, s)),
        ("match-str", "%s.match(%s);" % (s, ps)),
        ("search-str", "%s.search(%s);" % (s, ps)),
        ("match-re", "%s.match(%s);" % (s, lit)),
        ("match-g", "%s.match(%sg);" % (s, lit)),
        ("search-re", "%s.search(%s);" % (s, lit)),
        ("replace-re", "%s.replace(%s, 'x');" % (s, lit)),
        ("replaceAll-re", "%s.replaceAll(%sg, 'x');" % (s, lit)),
        ("split-re", "%s.split(%s);" % (s, lit)),
        ("regex-in-loop", "while (true) { %s.test('aab'); }" % lit),
        # every other way a regular expression object comes into being or is reached
        ("new RegExp(re)", "new RegExp(%s).test(%s);" % (lit, s)),
        ("RegExp(re, flags)", "RegExp(%s, 'i').exec(%s);" % (lit, s)),
        ("new RegExp(re).search", "%s.search(new RegExp(%s, 'm'));" % (s, lit)),
        ("RegExp-from-source", "var r0 = %s; new RegExp(r0.source, r0.flags).test(%s);" % (lit, s)),
        ("regexp-in-object", "var holder = {re: %s}; holder.re.test(%s);" % (lit, s)),
        ("regexp-from-function", "(function () { return %s; })().test(%s);" % (lit, s)),
        ("regexp-via-call", "RegExp.prototype.test ? %s.test.call(%s, %s) : %s.test(%s);" % (lit, lit, s, lit, s)),
        ("regexp-sticky", "var ry = new RegExp(%s, 'y'); ry.lastIndex = 0; ry.test(%s);" % (ps, s)),
        ("regexp-replace-fn", "%s.replace(%s, function (m) { return m; });" % (s, lit)),
        ("regexp-split-limit", "%s.split(%s, 3);" % (s, lit)),
        ("regexp-JSON-roundtrip-source", "new RegExp(JSON.parse(JSON.stringify({p: %s})).p).test(%s);" % (ps, s)),
    ]


EMPTY_PATS = ["a*", "(?:)", "\\b", "^", "$", "(?=a)", "x*?", "\\d*", "(a)|", "a|", "|a", "(?!x)", "\\B", "a{0}", "(a*)*", "(?:a|)*", "[^]*?", "(?<=a)", "^|$", "a*?b*?"]
RX_FLAGS = ["", "g", "y", "gy", "gi", "gm", "giy", "gmy", "gs", "gu", "yi"]
RX_SUBJECTS = ["", "aab", "abc abc", "\\n", "aaa", "b", "a\\nb", "\u00e9a"]


def finite_driver_programs(ctx):
    out = []
    uses = [("match", "S.match(R);"), ("replace", "S.replace(R, '-');"), ("replace-fn", "S.replace(R, function (m) { return '[' + m + ']'; });"),
            ("replace-tpl", "S.replace(R, '$&$&');"), ("replaceAll", "S.replaceAll(R, '-');"), ("split", "S.split(R);"), ("split-limit", "S.split(R, 2);"),
            ("search", "S.search(R);"), ("matchAll", "var it = S.matchAll(R), n = 0; for (var m of it) { if (++n > 50) break; }"),
            ("test-bounded", "var n = 0; while (R.test(S) && n < 40) { n++; }"),
            ("exec-idiom", "var m, n = 0; while ((m = R.exec(S)) !== null && n < 40) { n++; if (m.index === R.lastIndex) { R.lastIndex++; } }"),
            ("exec-lastIndex-past-end", "R.lastIndex = 99; R.exec(S); R.test(S);"), ("symbol-free-replace-call", "String.prototype.replace.call(S, R, '-');")]
    k = 0
    for pat in EMPTY_PATS:
        for fl in RX_FLAGS:
            for subj in RX_SUBJECTS:
                for un, u in uses:
                    k += 1
                    if ctx.quick and (k % 7) and not (fl in ("gy", "giy", "gmy") and subj in ("aab", "aaa")):
                        continue
                    src = "var S = '%s'; var R = new RegExp(%s, '%s'); %s" % (subj, places.q(pat), fl, u)
                    out.append(("rx-%s|%s|%s|%s" % (un, pat, fl, subj), src))
    # constructing a regular expression is script-reachable work too: counted quantifiers with huge bounds over bodies that
    # compile to nothing / to little must be accepted or refused promptly, through every construction route
    bodies = ["(?:)", "(?:(?:))", "a", "()", "(?:a|)", "(?=a)", "\\b", "[]", "(?:){2}", "(?:a*)", ".", "(?:(?:){0,9})", "(?:|)", "(?!)", "^", "(?:^|$)"]
    counts = ["{0,100000}", "{0,1000000}", "{0,4000000000}", "{2,3999999999}", "{1,2147483647}", "{0,99999999999999999999}", "{1000000}", "{4000000000}", "{1000000,}", "{0,65536}?", "{1,}?(?:){0,2147483647}"]
    routes = [("literal", "var r = eval(%s);"), ("new-RegExp", "var r = new RegExp(%s);"), ("RegExp()", "var r = RegExp(%s, 'g');"), ("match-str", "'aab'.match(%s);"), ("search-str", "'aab'.search(%s);"),
              ("caught", "try { new RegExp(%s).test('aab'); } catch (e) { }"), ("split", "'aab'.split(new RegExp(%s));")]
    k = 0
    for b in bodies:
        for c in counts:
            for rn, rt in routes:
                k += 1
                if ctx.quick and k % 5 and not (b in ("(?:)", "(?:(?:))") and rn in ("new-RegExp", "literal")):
                    continue
                pat = "x" + b + c + "y"
                arg = places.q("/" + pat + "/") if rn == "literal" else places.q(pat)
                out.append(("rx-construct-%s|%s|%s" % (rn, b, c), "try { " + (rt % arg) + " } catch (e) { if (!(e instanceof SyntaxError)) { throw e; } }"))
    for i, e in enumerate(EDGE_DRIVERS):
        out.append(("edge|%d" % i, "var S = 'abcabc', A = [3, 1, 2, 1], O = {a: 1, b: 2}; " + e))
    return out


EDGE_DRIVERS = [
    "var pa = {}, pb = {}; try { Object.setPrototypeOf(pa, pb); Object.setPrototypeOf(pb, pa); } catch (e) { } 'x' in pa; pa instanceof Array; pa.nosuch; pb.x = 1; for (var pk in pa) { } Object.keys(pa); JSON.stringify(pa);",
    "var pc = {}; try { Object.setPrototypeOf(pc, pc); } catch (e) { } pc.nosuch; 'q' in pc; String(pc);",
    "var pd = {}, pe = Object.create(pd), pf = Object.create(pe); try { Object.setPrototypeOf(pd, pf); } catch (e) { } pf.nosuch; pd instanceof Object;",
    "function PF() { } var pg = new PF(); try { Object.setPrototypeOf(PF.prototype, pg); } catch (e) { } pg instanceof PF; pg.nosuch;",
    "var ca = [1]; ca.push(ca); String(ca); ca.join(); ca + ''; [ca] + ''; ca < ca; isNaN(ca);",
    "var co = {}; co.self = co; try { JSON.stringify(co); } catch (e) { } String(co); Object.keys(co);",
    "S.replaceAll('', '-');", "S.split('');", "S.split('', 2);", "S.indexOf('', 10);", "S.lastIndexOf('');", "S.lastIndexOf('', -5);", "''.padStart(5, '');", "S.padEnd(10, '');",
    "S.padStart(10, 'xy');", "S.repeat(0);", "''.repeat(1000);", "S.replace('', '$&$&');", "S.replace('', function () { return ''; });", "S.includes('', 100);", "S.startsWith('', 100);",
    "S.endsWith('', -1);", "S.substring(NaN, -1);", "S.substr(-100, Infinity);", "S.slice(Infinity, -Infinity);", "S.at(-100);", "S.charAt(1e9);", "S.charCodeAt(-1);", "S.codePointAt(99);",
    "S.concat();", "S.trim();", "' \\n\\t '.trim();", "S.split(undefined);", "S.split('abc', 0);", "S.split('abcabc');", "''.split('');", "''.split('a');", "S.normalize && S.normalize();",
    "S.localeCompare('');", "S.toUpperCase().toLowerCase();", "S.match('');", "S.search('');", "S.indexOf('c', -Infinity);", "S.lastIndexOf('a', NaN);",
    "A.fill(0, -10, 10);", "A.fill(0, 3, 1);", "A.copyWithin(0, 1);", "A.copyWithin(-1, -3, -1);", "A.copyWithin(1, 0, 100);", "A.splice(-1, 0);", "A.splice(0);", "A.splice(1, -1, 9);",
    "A.splice(100, 100, 1, 2);", "A.slice(5, 1);", "A.slice(-100, 100);", "A.lastIndexOf(1, -10);", "A.lastIndexOf(1, 100);", "A.indexOf(1, -Infinity);", "A.includes(NaN, NaN);",
    "new Array(3).join();", "new Array(0).join('x');", "Array.from({length: 3});", "Array.from({length: -1});", "Array.from({length: NaN});", "Array.from('');", "[[1, [2, [3]]]].flat(Infinity);",
    "[].flat(1e9);", "A.flatMap(function (x) { return []; });", "A.reverse();", "[].reverse();", "A.sort();", "[].sort();", "[1].sort(function () { return NaN; });", "A.concat([], [[]]);",
    "A.join(A);", "A.length = 0; A.pop(); A.shift();", "A.length = 2; A.push();", "A.unshift();", "A.at(-9);", "A.find(function () { return false; });", "A.findLast && A.findLast(function () { return false; });",
    "A.reduce(function (x, y) { return x + y; });", "A.reduceRight(function (x, y) { return x; }, 0);", "[].every(function () { return false; });", "[, , 1].forEach(function () { });",
    "A.keys && A.keys();", "A.entries && A.entries();", "Array(5).fill().map(function (x, i) { return i; });", "A.toString();", "Array.of();", "Array.isArray(A);", "A.with && A.with(0, 1);",
    "(1e21).toString(2);", "(0.1).toString(3);", "(1e-7).toFixed(20);", "(255).toString(36);", "(-255.5).toString(16);", "(5e-324).toString(2);", "(1.7976931348623157e308).toString(36);",
    "(0).toFixed(0);", "(1e21).toFixed(2);", "(123.456).toExponential(0);", "(0).toExponential(20);", "(5e-324).toPrecision(21);", "(1e300).toPrecision(100);", "(0.000001).toString();",
    "(1e-7).toString();", "NaN.toString(2);", "Infinity.toFixed(2);", "(-0).toString();", "(123).toString(10);", "(2 ** 53).toString(2);", "(1 / 3).toString(2);", "(1 / 3).toFixed(20);",
    "parseInt('1'.repeat(400));", "parseInt('', 36);", "parseInt('z'.repeat(50), 36);", "parseInt('0x');", "parseInt('  -');", "parseFloat('1e');", "parseFloat('.');", "parseFloat('1'.repeat(400));",
    "parseFloat('1e400');", "parseFloat('-.e1');", "Number('');", "Number(' 0x ');", "Number('1e1000');", "Number('0b');", "Number('.');", "Number('1_0');", "Math.round(1e300);", "Math.round(-0.5);",
    "Math.max();", "Math.min();", "Math.hypot();", "Math.pow(0, -Infinity);", "Math.trunc(-0.9);", "Math.fround && Math.fround(1e400);", "Math.clz32 && Math.clz32(0);", "Math.imul && Math.imul(-1, 1e20);",
    "JSON.stringify(O, null, 10);", "JSON.stringify(O, null, '');", "JSON.stringify(O, null, 'xxxxxxxxxxxxxxxxxxxx');", "JSON.stringify([]);", "JSON.stringify([[]], null, 2);", "JSON.stringify({}, null, 2);",
    "JSON.stringify('');", "JSON.stringify(undefined);", "JSON.parse('[]');", "JSON.parse(' {} ');", "JSON.parse('\\n[\\n]\\n');", "JSON.parse('\"\"');", "JSON.parse('-0');", "JSON.parse('1e5');",
    "JSON.parse('');", "JSON.parse('[');", "JSON.parse('{\"a\"');", "JSON.parse('\"\\\\');", "JSON.parse('tru');", "JSON.parse('-');", "JSON.parse('1.');", "JSON.parse('[1,]');", "JSON.parse('\"\\\\u12');",
    "Object.keys('');", "Object.keys([]);", "Object.assign({});", "Object.entries({});", "Object.fromEntries && Object.fromEntries([]);", "for (var k in '') { }", "for (var v of '') { }", "for (var v of []) { }",
    "for (var k in []) { }", "for (var k in null) { }", "for (var k in undefined) { }", "for (var k in 5) { }", "new Uint8Array(0).fill(1);", "new Uint8Array(4).fill(1, -9, 9);", "new Uint8Array(4).subarray(3, 1);",
    "new Uint8Array(4).slice(-1);", "new Uint8Array(4).set([], 4);", "new Uint8Array(0).join();", "new Float64Array(2).indexOf(NaN);", "new Int8Array(3).reverse && new Int8Array(3).reverse();",
    "new Date(NaN).getTime();", "new Date(8.64e15).getTime();", "new Date(0).toISOString();", "Date.now();", "String.fromCharCode();", "String.fromCharCode(-1, 65536, NaN);",
    "encodeURIComponent && encodeURIComponent('');", "decodeURIComponent && decodeURIComponent('%');", "escape && escape('');", "new RegExp('').source;", "new RegExp('', 'g').exec('');",
    "/(?:)/g[Symbol.replace] && 1;", "'x'.replace(/x/g, '$');", "'x'.replace(/x/g, '$0$1$99$<');", "'x'.replace(/(x)/, '$1$11$01$001');", "'abc'.replace(/b/, \"$'$`\");",
    "new Array(1000).join('');", "new Array(1000).toString().length;", "Array(1000).fill(0).indexOf(1);", "'x'.repeat(1000).lastIndexOf('y');", "'x'.repeat(1000).split('x').length;",
    "'x'.repeat(999).replaceAll('x', 'yy').length;", "'x'.repeat(999).replace(/x/g, '').length;", "'x'.repeat(999).match(/x/g).length;", "'ab'.repeat(400).split(/(?=a)/).length;",
]


def build(ctx):
    cases = []
    Ds = [200, 1500, 5000] if ctx.quick else [200, 1000, 1500, 5000, 20000]
    mls = [None] if ctx.quick else [None, 1000000]
    wraps = places.WRAPPERS

    def add(core_name, core, plc, wrap_name, wrap, D, ml, outer=False):
        inner = core if outer else wrap % core
        for pname, src in places.placements(inner):
            if plc is not None and pname not in plc:
                continue
            full = (wrap % src) if outer else src
            full += "\nlog('END');"
            cases.append({"id": h([core_name, pname, wrap_name, D, ml, outer]), "core": core_name, "place": pname,
                          "wrap": wrap_name + ("/outer" if outer else ""), "D": D, "ml": ml, "src": full})
    all_places = None
    for ci, (cn, core) in enumerate(LOOP_CORES):
        for wi, (wn, w) in enumerate(wraps):
            for D in Ds:
                for ml in mls:
                    if ctx.quick and (ci + wi + D) % 2 and wn not in ("bare", "try-catch-finally"):
                        continue  # quick: covering subset
                    add(cn, core, all_places, wn, w, D, ml)
        # handler outside a native frame / eval frame
        for wn, w in wraps[1:4]:
            add(cn, core, {"cb:forEach", "cb:sort", "getter", "valueOf+", "eval", "newFunction", "call"}, wn, w, Ds[1], None, outer=True)
    for cn, lit, subj in REGEX_CORES:
        for un, use in regex_uses(lit, subj):
            for wn, w in wraps[:4]:
                for D in Ds:
                    plc = {"top", "function", "cb:map", "getter", "eval", "newFunction", "valueOf+"}
                    if ctx.quick:
                        plc = {"top", "cb:map", "eval"} if wn != "bare" else plc
                    add(cn + "/" + un, use, plc, wn, w, D, None)
    # the same after an exposed host function re-entered eval() on this context
    for cn, lit, subj in REGEX_CORES[:6]:
        for un, use in regex_uses(lit, subj):
            for pre in ("hostEval('1');", "hostEval('var hz = 0; for (var hi = 0; hi < 5; hi++) { hz += hi; } hz');", "[1].forEach(function () { hostEval('2'); });", "try { hostEval('throw 1'); } catch (he) { }"):
                if ctx.quick and (len(un) + len(pre)) % 3:
                    continue
                cases.append({"id": h(["hosteval", cn, un, pre]), "core": cn + "/" + un, "place": "after-host-reentry", "wrap": "bare", "D": Ds[1], "ml": None, "src": pre + " " + use + "\nlog('END');"})
    for cn, core in LOOP_CORES[:8]:
        for pre in ("hostEval('1');", "try { hostEval('throw 1'); } catch (he) { }"):
            cases.append({"id": h(["hosteval-loop", cn, pre]), "core": cn, "place": "after-host-reentry", "wrap": "bare", "D": Ds[1], "ml": None, "src": pre + " " + core + "\nlog('END');"})
    # loops whose body works on receivers of many sizes (any per-call step weighting, batching or poll cadence that depends on operand
    # size must still let the clock be polled): 30 lengths x string / array receivers x a few methods
    for L in range(100, 3100, 100):
        for rn, mk, call in (("string", "var big = 'x'.repeat(%d);" % L, "big.indexOf('q');"), ("string-slice", "var big = 'x'.repeat(%d);" % L, "big.slice(1, 3); big.charAt(2);"),
                             ("array", "var big = new Array(%d); big[0] = 1;" % L, "big.indexOf(7);"), ("array-slice-join", "var big = new Array(%d);" % L, "big.slice(0, 2).join();")):
            if ctx.quick and (L // 100 + len(rn)) % 2:
                continue
            core = mk + " while (true) { " + call + " }"
            add("big-receiver-%s/%d" % (rn, L), core, {"top", "function", "cb:forEach"} if not ctx.quick else {"top", "cb:forEach"}, "bare", wraps[0][1], Ds[1], None)
            add("big-receiver-%s/%d" % (rn, L), core, {"getter"}, "try-catch-finally", dict(wraps)["try-catch-finally"], Ds[1], 1000000)
    # built-in driver loops on edge-case operands: every one of these scripts is finite, so it must come back (finished, or with
    # the script's own error) well inside the budget - a native loop that stops advancing (an empty match, an empty search string,
    # a zero step) never returns and is seen by the regex-step monitor, the step budget or the watchdog
    for fid, src in finite_driver_programs(ctx):
        cases.append({"id": h(["finite", fid]), "core": "finite-driver", "place": fid.split("|")[0], "wrap": "bare", "D": 60000, "ml": None,
                      "finite": True, "src": src + "\nlog('END');"})
    # chains of nested eval / new Function levels each burning part of the budget
    for k in (1, 2, 3, 5, 8):
        for D in Ds:
            burn = "for (var i%d = 0; i%d < %d; i%d++) {}" % (k, k, max(20, D // 12), k)
            src = burn
            for lvl in range(k):
                src = burn.replace("i%d" % k, "j%d" % lvl) + " eval(" + places.q(src) + ");"
            cases.append({"id": h(["evalchain", k, D]), "core": "eval-chain-%d" % k, "place": "eval-chain",
                          "wrap": "bare", "D": D, "ml": None, "src": src + "\nwhile(true){}\nlog('END');"})
    return cases


# ---------------- worker side --------------------------------------------------
def w_case(case, opts):
    import traceback
    from vf import engine as E
    D = case["D"]
    st = {"first_raise": None, "abort_stack": None, "past": None}
    Orig = E.TimeLimitError

    class SpyTLE(Orig):
        def __init__(self, *a, **k):
            if st["first_raise"] is None:
                st["first_raise"] = E.RUN.ticks
            Orig.__init__(self, *a, **k)
    SpyTLE.__name__ = "TimeLimitError"
    SpyTLE.__qualname__ = "TimeLimitError"

    def stack_now(extra=None):
        st["abort_stack"] = [f"{fs.name}:{fs.line}" for fs in traceback.extract_stack()[-9:-3]
                             if "microjs" in fs.filename] + ([extra] if extra else [])

    cnt = {"rx_run": 0, "rx_main_run": 0}
    past = {}
    real = bool(case.get("real"))

    def mon(vm):
        cnt["rx_run"] = 0
        cnt["rx_main_run"] = 0
        if E.RUN.ticks > D and not real:
            # the engine's poll counter is per VM object (nested eval / new Function code gets its own)
            k = id(vm)
            n = past.get(k, 0) + 1
            past[k] = n
            if n > VM_B:
                stack_now()
                raise E.VerifAbort("vm-overrun")

    def rmon(rvm, loop, pc, sp, nstack):
        if E.RUN.ticks > D and not real:
            cnt["rx_run"] += 1
            if loop == "main":
                cnt["rx_main_run"] += 1
            if cnt["rx_main_run"] > RX_MAIN_B or cnt["rx_run"] > RX_B:
                stack_now("regex-loop:" + loop)
                raise E.VerifAbort("regex-overrun")
    saved = E.mvm.TimeLimitError
    E.mvm.TimeLimitError = SpyTLE
    try:
        if case.get("real"):
            o = {"virtual": False, "max_steps": 50_000_000, "_vm_mons": [], "_rx_mons": [], "stamp": True}
            ctx = E.microjs.Context(time_limit=case["T"], memory_limit=case.get("ml"))
            con = ctx._globals.get("console")
            con.set("log", lambda *a: None)
            rec = E.run_js(case["src"], o, ctx=ctx)
        else:
            o = {"tl": D, "ml": case.get("ml"), "max_steps": D + 400 * B, "_vm_mons": [mon], "_rx_mons": [rmon],
                 "stamp": True}
            ctx = E.new_context(D, case.get("ml"))
            # an exposed host function that itself evaluates something on the same context (embedders do: configuration lookups, lazy
            # module loading): the outer evaluation goes on afterwards and is still bounded
            ctx.set("hostEval", lambda src_="1": ctx.eval(src_))
            rec = E.run_js(case["src"], o, ctx=ctx)
    finally:
        E.mvm.TimeLimitError = saved
    rec.update(st)
    return rec


def judge(case, r):
    """Returns (verdict, detail): verdict in ok / viol:<mechanism>."""
    D = case["D"]
    if r is None or "_fail" in (r or {}):
        return "viol:no-return", {"fail": r}
    if "_exc" in r:
        return "harness", r
    ticks = r["ticks"]
    logs = r.get("log", [])
    tags = [e[0][1] for e in logs if e and e[0][0] == "s"]
    if r["out"] == "abort":
        return "viol:" + str(r.get("abort")), {"abort": r.get("abort"), "stack": r.get("abort_stack"), "ticks": ticks}
    fr = r.get("first_raise")
    if fr is not None:
        late = [e for e in logs if e[-1][0] == "tick" and e[-1][1] > fr]
        if ticks > fr or late:
            return "viol:ran-after-stop", {"first_raise": fr, "ticks": ticks, "late_log": late[:3]}
    if r["out"] == "ok":
        if "END" not in tags:
            return "viol:returned-without-finishing", {"ret": r.get("ret"), "log": tags}
        return "ok", None
    err = r.get("err", {})
    cls = err.get("cls")
    if ticks > D + POLL:
        allowed = {"TimeLimitError"} | ({"MemoryLimitError"} if case.get("ml") else set())
        if cls not in allowed:
            return "viol:wrong-error-after-deadline:" + str(cls), {"err": err, "ticks": ticks}
    return "ok", None


def main(ctx):
    cases = build(ctx)
    rng = random.Random(ctx.seed)
    # seed-dependent extra: random (core, placement, wrapper, D) with random D in a range
    extra = []
    allp = [p[0] for p in places.placements("x;")]
    for _ in range(150 if ctx.quick else 3000):
        cn, core = rng.choice(LOOP_CORES)
        wn, w = rng.choice(places.WRAPPERS)
        D = rng.randint(100, 30000)
        pname = rng.choice(allp)
        src = dict(places.placements(w % core))[pname] + "\nlog('END');"
        extra.append({"id": h(["rnd", cn, pname, wn, D]), "core": cn, "place": pname, "wrap": wn, "D": D, "ml": None,
                      "src": src})
    cases += extra
    # real-clock tier
    real = []
    reals = [0.05, 0.2]
    picks = [("while-true", "top"), ("while-true", "cb:map"), ("self-recursion", "function"), ("slow-loop", "getter"),
             ("callback-recursion", "top"), ("closure-loop", "eval"), ("sort-loop", "newFunction"),
             ("try-in-loop", "valueOf+"), ("eval-loop", "top"), ("while-true", "cb:sort")]
    cores = dict(LOOP_CORES)
    for cn, pl in picks:
        for wn, w in places.WRAPPERS[:4]:
            for T in reals:
                src = dict(places.placements(w % cores[cn]))[pl] + "\nlog('END');"
                real.append({"id": h(["real", cn, pl, wn, T]), "core": cn, "place": pl, "wrap": wn, "D": 10 ** 12,
                             "T": T, "real": True, "src": src})
    for cn, lit, subj in REGEX_CORES[:4]:
        for un, use in regex_uses(lit, subj)[:12]:
            real.append({"id": h(["real", cn, un]), "core": cn + "/" + un, "place": "top", "wrap": "bare",
                         "D": 10 ** 12, "T": 0.1, "real": True, "src": use + "\nlog('END');"})
    ep = engine_pool()
    try:
        fin_idx = [i for i, c in enumerate(cases) if c.get("finite")]
        oth_idx = [i for i, c in enumerate(cases) if not c.get("finite")]
        res = [None] * len(cases)
        for i, r in zip(oth_idx, ep.map({"mod": "checks.C01", "fn": "w_case"}, [cases[i] for i in oth_idx], batch=40, timeout=120, single_timeout=30)):
            res[i] = r
        # (finite scripts take milliseconds: a short watchdog keeps a hanging tree from costing minutes per case)
        for i, r in zip(fin_idx, ep.map({"mod": "checks.C01", "fn": "w_case"}, [cases[i] for i in fin_idx], batch=10, timeout=25, single_timeout=8)):
            res[i] = r
        rres = ep.map({"mod": "checks.C01", "fn": "w_case"}, real, batch=4, timeout=60, single_timeout=20)
    finally:
        ep.close()
    over = {}
    cells = {}
    finite_out = {}
    timed_out = 0
    for c, r in zip(cases, res):
        ctx.count()
        v, det = judge(c, r)
        if v == "harness":
            ctx.inconclusive_because("harness error: " + str(det)[:200])
            continue
        key = (c["core"].split("/")[0], c["place"] if not c.get("finite") else "finite", c["wrap"])
        cells[key] = cells.get(key, 0) + 1
        if c.get("finite") and r:
            fo = r.get("out") if r.get("out") != "jserr" else "script-error:" + str(r["err"].get("cls"))
            finite_out[fo] = finite_out.get(fo, 0) + 1
        if r and r.get("out") == "jserr" and r["err"].get("cls") == "TimeLimitError":
            timed_out += 1
            ctx.nontrivial(c["id"])
            o = r["ticks"] - c["D"]
            b = (o // 250) * 250
            over[b] = over.get(b, 0) + 1
        if v == "ok":
            continue
        mech = v + "|" + c["place"] + "|" + c["core"].split("/")[-1 if c["core"].startswith("rx") else 0]
        if ctx.known_cell(c["id"], h(v, 10)):
            continue
        ctx.violation(mech, {"case": c, "monitor": v, "detail": det, "replay_hint": "./check C01 --replay <this file>"})
    slow = 0
    for c, r in zip(real, rres):
        ctx.count()
        if r is None or "_fail" in r:
            ctx.violation("real:no-return|" + c["core"] + "|" + c["place"], {"case": c, "monitor": "real-clock watchdog", "detail": r})
            continue
        if "_exc" in r:
            ctx.inconclusive_because("harness error (real tier): " + str(r)[:200])
            continue
        el = r["real_s"]
        cls = (r.get("err") or {}).get("cls")
        if r["out"] == "ok":
            tags = [e[0][1] for e in r.get("log", []) if e and e[0][0] == "s"]
            if "END" not in tags:
                ctx.violation("real:returned-without-finishing|" + c["core"], {"case": c, "detail": r})
            continue
        ctx.nontrivial(c["id"])
        if el > c["T"] + 2.0:
            ctx.violation("real:late>2s|" + c["core"] + "|" + c["place"], {"case": c, "elapsed": el, "detail": r.get("err")})
        elif el > c["T"] + 0.5:
            slow += 1
        if cls != "TimeLimitError" and el > c["T"] + 0.3:
            ctx.violation("real:wrong-error|" + str(cls) + "|" + c["core"], {"case": c, "elapsed": el, "detail": r.get("err")})
    if timed_out == 0:
        ctx.inconclusive_because("no case reached the deadline: step hook not firing?")
    ctx.cov["rule"] = ("product {non-terminating core} x {placement of script code} x {try/catch/finally wrapper} x {deadline D in "
                       "virtual ticks} x {memory limit}; non-trivial = the run was stopped by TimeLimitError after the "
                       "deadline (distinct by case id); plus real-clock cases")
    ctx.cov["cells_core_place_wrap"] = len(cells)
    ctx.cov["timed_out_runs"] = timed_out
    ctx.cov["overrun_histogram_steps"] = {str(k): v for k, v in sorted(over.items())}
    ctx.cov["overrun_bound_B"] = B
    ctx.cov["finite_driver_outcomes"] = finite_out
    ctx.cov["real_clock_cases"] = len(real)
    ctx.cov["real_clock_slow_but_within_2s"] = slow
    ctx.cov["placements"] = sorted({c["place"] for c in cases})
    for c in (cases[0], cases[len(cases) // 2], cases[-1]):
        ctx.sample({"core": c["core"], "place": c["place"], "wrap": c["wrap"], "D": c["D"], "src": c["src"]})
    ctx.assumptions += ["one tick = one VM instruction or regex step = 1 virtual microsecond; the engine reads time.monotonic through the module attribute, which the worker replaces during the run",
                        "operands of single native operations are small (<= 10^3 elements), per the property's scope"]


def replay(ctx, path):
    import json
    from vf.runner import engine_pool as epool
    rep = json.load(open(path))
    ep = epool(n=1)
    try:
        r = ep.map({"mod": "checks.C01", "fn": "w_case"}, [rep["case"]], batch=1, timeout=60)[0]
    finally:
        ep.close()
    v, det = judge(rep["case"], r)
    print(json.dumps({"verdict": v, "detail": det, "src": rep["case"]["src"]}, indent=1, default=str))
    if v != "ok":
        print(f"VIOLATION property=C01 replay={path}")
        raise SystemExit(1)
    raise SystemExit(0)
