"""C01 — time limit bounds every evaluation, whatever the script does.

Monitors (all on the real engine, hooks on):
  1. virtual-clock step monitor: one tick per VM instruction / regex step = 1 us of engine time;
     invariant asserted inside the hook: ticks - deadline <= B.  Breach => VerifAbort => violation
     carrying the host stack at the abort (the unpolled path).
  2. outcome oracle at the Context.eval boundary: past deadline+POLL => must have raised exactly
     TimeLimitError (or MemoryLimitError when a memory limit is set); returned => END was logged.
  3. swallow monitor: the tick at which the engine first constructs TimeLimitError is recorded;
     any interpreter step or log entry after it means script code kept running after the stop.
  4. real-clock tier: same scripts with a real time_limit, elapsed measured with the real clock.
"""
import random

from vf import places
from vf.common import h
from vf.runner import engine_pool

LEVEL = "exploration"
# Allowed overrun after the virtual deadline.  The engine polls the clock every 1000 VM
# instructions, every 100 steps of each regex loop and between regex search attempts.
VM_B = 1100        # VM instructions executed after the deadline
RX_MAIN_B = 300    # consecutive main-loop regex steps after the deadline (no VM step in between)
RX_B = 400         # consecutive regex steps of any loop (lookaround bodies share the attempt's step counter)
B = VM_B
POLL = 1100       # an error class is only judged if it surfaced later than deadline + one poll period

LOOP_CORES = [
    ("while-true", "while (true) {}"),
    ("for-ever", "for (;;) ;"),
    ("do-while", "do {} while (1);"),
    ("self-recursion", "function r(n){ return r(n + 1); } r(0);"),
    ("mutual-recursion", "function ra(n){ return rb(n + 1); } function rb(n){ return ra(n + 1); } ra(0);"),
    ("operand-recursion", "function rr(n){ return 1 + rr(n + 1); } rr(0);"),
    ("callback-recursion", "function cr(){ [1].forEach(cr); } cr();"),
    ("closure-loop", "var k = 0; var inc = function(){ k++; }; while (true) { inc(); }"),
    ("slow-loop", "for (var i = 0; i < 1000000000; i++) { var z = i * 2; }"),
    ("nested-loops", "for (var i = 0; i < 100000; i++) { for (var j = 0; j < 100000; j++) { } }"),
    ("string-build", "var s = ''; while (true) { s = 'a'; }"),
    ("array-churn", "var arr = []; while (true) { arr.push(1); arr.pop(); }"),
    ("forin-loop", "var ob = {a:1,b:2}; while (true) { for (var kk in ob) {} }"),
    ("try-in-loop", "while (true) { try { throw 1; } catch (ee) {} }"),
    ("sort-loop", "while (true) { [3,1,2].sort(function(a,b){ return a-b; }); }"),
    ("eval-loop", "while (true) { eval('1+1'); }"),
]
A28 = "a" * 28
REGEX_CORES = [
    ("rx-nested-quant", "/(a+)+b/", A28),
    ("rx-overlap-alt", "/(a|a)*b/", A28),
    ("rx-alt-2", "/(a|aa)+b/", A28),
    ("rx-star-star", "/(a*)*b/", A28),
    ("rx-dotstar", "/(.*)*x/", A28),
    ("rx-backref", "/(a*)\\1*b/", A28),
    ("rx-lookahead-body", "/(?=(a+)+b)a/", A28),
    ("rx-in-lookbehind", "/(?<=(a|a)*b)c/", A28 + "c"),
    # lookarounds entered again and again inside a catastrophic loop (their steps must count towards the same poll interval)
    ("rx-lookahead-in-loop", "/^(?:(?=a)a+)+$/", A28 + "!"),
    ("rx-neg-lookahead-in-loop", "/^(?:(?!b)a+)+$/", A28 + "!"),
    ("rx-lookbehind-in-loop", "/^(?:a+(?<=a))+$/", A28 + "!"),
    ("rx-lookahead-alt-in-loop", "/^(?:(?=a)a|(?=a)aa)+$/", A28 + "!"),
]


def regex_uses(lit, subj):
    """Every regex-consuming API applied to literal `lit` and subject `subj` (statement lists)."""
    pat = lit[1:-1]
    s = places.q(subj)
    ps = places.q(pat)
    return [
        ("lit.test", "%s.test(%s);" % (lit, s)),
        ("lit.exec", "%s.exec(%s);" % (lit, s)),
        ("RegExp()", "RegExp(%s).test(%s);" % (ps, s)),
        ("new RegExp", "new RegExp(%s).exec(%s);" % (ps, s)),
        ("RegExp-after-eval", "eval('1'); RegExp(%s).test(%s);" % (ps, s)),
        ("RegExp-after-newFunction", "new Function('return 1')(); new RegExp(%s).exec(%s);" % (ps, s)),
        ("match-str", "%s.match(%s);" % (s, ps)),
        ("search-str", "%s.search(%s);" % (s, ps)),
        ("match-re", "%s.match(%s);" % (s, lit)),
        ("match-g", "%s.match(%sg);" % (s, lit)),
        ("search-re", "%s.search(%s);" % (s, lit)),
        ("replace-re", "%s.replace(%s, 'x');" % (s, lit)),
        ("replaceAll-re", "%s.replaceAll(%sg, 'x');" % (s, lit)),
        ("split-re", "%s.split(%s);" % (s, lit)),
        ("regex-in-loop", "while (true) { %s.test('aab'); }" % lit),
        # every other way a regular expression object comes into being or is reached
        ("new RegExp(re)", "new RegExp(%s).test(%s);" % (lit, s)),
        ("RegExp(re, flags)", "RegExp(%s, 'i').exec(%s);" % (lit, s)),
        ("new RegExp(re).search", "%s.search(new RegExp(%s, 'm'));" % (s, lit)),
        ("RegExp-from-source", "var r0 = %s; new RegExp(r0.source, r0.flags).test(%s);" % (lit, s)),
        ("regexp-in-object", "var holder = {re: %s}; holder.re.test(%s);" % (lit, s)),
        ("regexp-from-function", "(function () { return %s; })().test(%s);" % (lit, s)),
        ("regexp-via-call", "RegExp.prototype.test ? %s.test.call(%s, %s) : %s.test(%s);" % (lit, lit, s, lit, s)),
        ("regexp-sticky", "var ry = new RegExp(%s, 'y'); ry.lastIndex = 0; ry.test(%s);" % (ps, s)),
        ("regexp-replace-fn", "%s.replace(%s, function (m) { return m; });" % (s, lit)),
        ("regexp-split-limit", "%s.split(%s, 3);" % (s, lit)),
        ("regexp-JSON-roundtrip-source", "new RegExp(JSON.parse(JSON.stringify({p: %s})).p).test(%s);" % (ps, s)),
    ]


def build(ctx):
    cases = []
    Ds = [200, 1500, 5000] if ctx.quick else [200, 1000, 1500, 5000, 20000]
    mls = [None] if ctx.quick else [None, 1000000]
    wraps = places.WRAPPERS

    def add(core_name, core, plc, wrap_name, wrap, D, ml, outer=False):
        inner = core if outer else wrap % core
        for pname, src in places.placements(inner):
            if plc is not None and pname not in plc:
                continue
            full = (wrap % src) if outer else src
            full += "\nlog('END');"
            cases.append({"id": h([core_name, pname, wrap_name, D, ml, outer]), "core": core_name, "place": pname,
                          "wrap": wrap_name + ("/outer" if outer else ""), "D": D, "ml": ml, "src": full})
    all_places = None
    for ci, (cn, core) in enumerate(LOOP_CORES):
        for wi, (wn, w) in enumerate(wraps):
            for D in Ds:
                for ml in mls:
                    if ctx.quick and (ci + wi + D) % 2 and wn not in ("bare", "try-catch-finally"):
                        continue  # quick: covering subset
                    add(cn, core, all_places, wn, w, D, ml)
        # handler outside a native frame / eval frame
        for wn, w in wraps[1:4]:
            add(cn, core, {"cb:forEach", "cb:sort", "getter", "valueOf+", "eval", "newFunction", "call"}, wn, w, Ds[1], None, outer=True)
    for cn, lit, subj in REGEX_CORES:
        for un, use in regex_uses(lit, subj):
            for wn, w in wraps[:4]:
                for D in Ds:
                    plc = {"top", "function", "cb:map", "getter", "eval", "newFunction", "valueOf+"}
                    if ctx.quick:
                        plc = {"top", "cb:map", "eval"} if wn != "bare" else plc
                    add(cn + "/" + un, use, plc, wn, w, D, None)
    # loops whose body works on receivers of many sizes (any per-call step weighting, batching or poll cadence that depends on operand
    # size must still let the clock be polled): 30 lengths x string / array receivers x a few methods
    for L in range(100, 3100, 100):
        for rn, mk, call in (("string", "var big = 'x'.repeat(%d);" % L, "big.indexOf('q');"), ("string-slice", "var big = 'x'.repeat(%d);" % L, "big.slice(1, 3); big.charAt(2);"),
                             ("array", "var big = new Array(%d); big[0] = 1;" % L, "big.indexOf(7);"), ("array-slice-join", "var big = new Array(%d);" % L, "big.slice(0, 2).join();")):
            if ctx.quick and (L // 100 + len(rn)) % 2:
                continue
            core = mk + " while (true) { " + call + " }"
            add("big-receiver-%s/%d" % (rn, L), core, {"top", "function", "cb:forEach"} if not ctx.quick else {"top", "cb:forEach"}, "bare", wraps[0][1], Ds[1], None)
            add("big-receiver-%s/%d" % (rn, L), core, {"getter"}, "try-catch-finally", dict(wraps)["try-catch-finally"], Ds[1], 1000000)
    # chains of nested eval / new Function levels each burning part of the budget
    for k in (1, 2, 3, 5, 8):
        for D in Ds:
            burn = "for (var i%d = 0; i%d < %d; i%d++) {}" % (k, k, max(20, D // 12), k)
            src = burn
            for lvl in range(k):
                src = burn.replace("i%d" % k, "j%d" % lvl) + " eval(" + places.q(src) + ");"
            cases.append({"id": h(["evalchain", k, D]), "core": "eval-chain-%d" % k, "place": "eval-chain",
                          "wrap": "bare", "D": D, "ml": None, "src": src + "\nwhile(true){}\nlog('END');"})
    return cases


# ---------------- worker side --------------------------------------------------
def w_case(case, opts):
    import traceback
    from vf import engine as E
    D = case["D"]
    st = {"first_raise": None, "abort_stack": None, "past": None}
    Orig = E.TimeLimitError

    class SpyTLE(Orig):
        def __init__(self, *a, **k):
            if st["first_raise"] is None:
                st["first_raise"] = E.RUN.ticks
            Orig.__init__(self, *a, **k)
    SpyTLE.__name__ = "TimeLimitError"
    SpyTLE.__qualname__ = "TimeLimitError"

    def stack_now(extra=None):
        st["abort_stack"] = [f"{fs.name}:{fs.line}" for fs in traceback.extract_stack()[-9:-3]
                             if "microjs" in fs.filename] + ([extra] if extra else [])

    cnt = {"rx_run": 0, "rx_main_run": 0}
    past = {}
    real = bool(case.get("real"))

    def mon(vm):
        cnt["rx_run"] = 0
        cnt["rx_main_run"] = 0
        if E.RUN.ticks > D and not real:
            # the engine's poll counter is per VM object (nested eval / new Function code gets its own)
            k = id(vm)
            n = past.get(k, 0) + 1
            past[k] = n
            if n > VM_B:
                stack_now()
                raise E.VerifAbort("vm-overrun")

    def rmon(rvm, loop, pc, sp, nstack):
        if E.RUN.ticks > D and not real:
            cnt["rx_run"] += 1
            if loop == "main":
                cnt["rx_main_run"] += 1
            if cnt["rx_main_run"] > RX_MAIN_B or cnt["rx_run"] > RX_B:
                stack_now("regex-loop:" + loop)
                raise E.VerifAbort("regex-overrun")
    saved = E.mvm.TimeLimitError
    E.mvm.TimeLimitError = SpyTLE
    try:
        if case.get("real"):
            o = {"virtual": False, "max_steps": 50_000_000, "_vm_mons": [], "_rx_mons": [], "stamp": True}
            ctx = E.microjs.Context(time_limit=case["T"], memory_limit=case.get("ml"))
            con = ctx._globals.get("console")
            con.set("log", lambda *a: None)
            rec = E.run_js(case["src"], o, ctx=ctx)
        else:
            o = {"tl": D, "ml": case.get("ml"), "max_steps": D + 400 * B, "_vm_mons": [mon], "_rx_mons": [rmon],
                 "stamp": True}
            rec = E.run_js(case["src"], o)
    finally:
        E.mvm.TimeLimitError = saved
    rec.update(st)
    return rec


def judge(case, r):
    """Returns (verdict, detail): verdict in ok / viol:<mechanism>."""
    D = case["D"]
    if r is None or "_fail" in (r or {}):
        return "viol:no-return", {"fail": r}
    if "_exc" in r:
        return "harness", r
    ticks = r["ticks"]
    logs = r.get("log", [])
    tags = [e[0][1] for e in logs if e and e[0][0] == "s"]
    if r["out"] == "abort":
        return "viol:" + str(r.get("abort")), {"abort": r.get("abort"), "stack": r.get("abort_stack"), "ticks": ticks}
    fr = r.get("first_raise")
    if fr is not None:
        late = [e for e in logs if e[-1][0] == "tick" and e[-1][1] > fr]
        if ticks > fr or late:
            return "viol:ran-after-stop", {"first_raise": fr, "ticks": ticks, "late_log": late[:3]}
    if r["out"] == "ok":
        if "END" not in tags:
            return "viol:returned-without-finishing", {"ret": r.get("ret"), "log": tags}
        return "ok", None
    err = r.get("err", {})
    cls = err.get("cls")
    if ticks > D + POLL:
        allowed = {"TimeLimitError"} | ({"MemoryLimitError"} if case.get("ml") else set())
        if cls not in allowed:
            return "viol:wrong-error-after-deadline:" + str(cls), {"err": err, "ticks": ticks}
    return "ok", None


def main(ctx):
    cases = build(ctx)
    rng = random.Random(ctx.seed)
    # seed-dependent extra: random (core, placement, wrapper, D) with random D in a range
    extra = []
    allp = [p[0] for p in places.placements("x;")]
    for _ in range(150 if ctx.quick else 3000):
        cn, core = rng.choice(LOOP_CORES)
        wn, w = rng.choice(places.WRAPPERS)
        D = rng.randint(100, 30000)
        pname = rng.choice(allp)
        src = dict(places.placements(w % core))[pname] + "\nlog('END');"
        extra.append({"id": h(["rnd", cn, pname, wn, D]), "core": cn, "place": pname, "wrap": wn, "D": D, "ml": None,
                      "src": src})
    cases += extra
    # real-clock tier
    real = []
    reals = [0.05, 0.2]
    picks = [("while-true", "top"), ("while-true", "cb:map"), ("self-recursion", "function"), ("slow-loop", "getter"),
             ("callback-recursion", "top"), ("closure-loop", "eval"), ("sort-loop", "newFunction"),
             ("try-in-loop", "valueOf+"), ("eval-loop", "top"), ("while-true", "cb:sort")]
    cores = dict(LOOP_CORES)
    for cn, pl in picks:
        for wn, w in places.WRAPPERS[:4]:
            for T in reals:
                src = dict(places.placements(w % cores[cn]))[pl] + "\nlog('END');"
                real.append({"id": h(["real", cn, pl, wn, T]), "core": cn, "place": pl, "wrap": wn, "D": 10 ** 12,
                             "T": T, "real": True, "src": src})
    for cn, lit, subj in REGEX_CORES[:4]:
        for un, use in regex_uses(lit, subj)[:12]:
            real.append({"id": h(["real", cn, un]), "core": cn + "/" + un, "place": "top", "wrap": "bare",
                         "D": 10 ** 12, "T": 0.1, "real": True, "src": use + "\nlog('END');"})
    ep = engine_pool()
    try:
        res = ep.map({"mod": "checks.C01", "fn": "w_case"}, cases, batch=40, timeout=120, single_timeout=30)
        rres = ep.map({"mod": "checks.C01", "fn": "w_case"}, real, batch=4, timeout=60, single_timeout=20)
    finally:
        ep.close()
    over = {}
    cells = {}
    timed_out = 0
    for c, r in zip(cases, res):
        ctx.count()
        v, det = judge(c, r)
        if v == "harness":
            ctx.inconclusive_because("harness error: " + str(det)[:200])
            continue
        key = (c["core"].split("/")[0], c["place"], c["wrap"])
        cells[key] = cells.get(key, 0) + 1
        if r and r.get("out") == "jserr" and r["err"].get("cls") == "TimeLimitError":
            timed_out += 1
            ctx.nontrivial(c["id"])
            o = r["ticks"] - c["D"]
            b = (o // 250) * 250
            over[b] = over.get(b, 0) + 1
        if v == "ok":
            continue
        mech = v + "|" + c["place"] + "|" + c["core"].split("/")[-1 if c["core"].startswith("rx") else 0]
        if ctx.known_cell(c["id"], h(v, 10)):
            continue
        ctx.violation(mech, {"case": c, "monitor": v, "detail": det, "replay_hint": "./check C01 --replay <this file>"})
    slow = 0
    for c, r in zip(real, rres):
        ctx.count()
        if r is None or "_fail" in r:
            ctx.violation("real:no-return|" + c["core"] + "|" + c["place"], {"case": c, "monitor": "real-clock watchdog", "detail": r})
            continue
        if "_exc" in r:
            ctx.inconclusive_because("harness error (real tier): " + str(r)[:200])
            continue
        el = r["real_s"]
        cls = (r.get("err") or {}).get("cls")
        if r["out"] == "ok":
            tags = [e[0][1] for e in r.get("log", []) if e and e[0][0] == "s"]
            if "END" not in tags:
                ctx.violation("real:returned-without-finishing|" + c["core"], {"case": c, "detail": r})
            continue
        ctx.nontrivial(c["id"])
        if el > c["T"] + 2.0:
            ctx.violation("real:late>2s|" + c["core"] + "|" + c["place"], {"case": c, "elapsed": el, "detail": r.get("err")})
        elif el > c["T"] + 0.5:
            slow += 1
        if cls != "TimeLimitError" and el > c["T"] + 0.3:
            ctx.violation("real:wrong-error|" + str(cls) + "|" + c["core"], {"case": c, "elapsed": el, "detail": r.get("err")})
    if timed_out == 0:
        ctx.inconclusive_because("no case reached the deadline: step hook not firing?")
    ctx.cov["rule"] = ("product {non-terminating core} x {placement of script code} x {try/catch/finally wrapper} x {deadline D in "
                       "virtual ticks} x {memory limit}; non-trivial = the run was stopped by TimeLimitError after the "
                       "deadline (distinct by case id); plus real-clock cases")
    ctx.cov["cells_core_place_wrap"] = len(cells)
    ctx.cov["timed_out_runs"] = timed_out
    ctx.cov["overrun_histogram_steps"] = {str(k): v for k, v in sorted(over.items())}
    ctx.cov["overrun_bound_B"] = B
    ctx.cov["real_clock_cases"] = len(real)
    ctx.cov["real_clock_slow_but_within_2s"] = slow
    ctx.cov["placements"] = sorted({c["place"] for c in cases})
    for c in (cases[0], cases[len(cases) // 2], cases[-1]):
        ctx.sample({"core": c["core"], "place": c["place"], "wrap": c["wrap"], "D": c["D"], "src": c["src"]})
    ctx.assumptions += ["one tick = one VM instruction or regex step = 1 virtual microsecond; the engine reads time.monotonic through the module attribute, which the worker replaces during the run",
                        "operands of single native operations are small (<= 10^3 elements), per the property's scope"]


def replay(ctx, path):
    import json
    from vf.runner import engine_pool as epool
    rep = json.load(open(path))
    ep = epool(n=1)
    try:
        r = ep.map({"mod": "checks.C01", "fn": "w_case"}, [rep["case"]], batch=1, timeout=60)[0]
    finally:
        ep.close()
    v, det = judge(rep["case"], r)
    print(json.dumps({"verdict": v, "detail": det, "src": rep["case"]["src"]}, indent=1, default=str))
    if v != "ok":
        print(f"VIOLATION property=C01 replay={path}")
        raise SystemExit(1)
    raise SystemExit(0)
