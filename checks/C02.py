"""C02 — memory limit stops runaway stack growth, and never stops bounded scripts.

Monitors on the real engine:
  1. stop monitor (hook): recursion shapes x M -> outcome class at the eval boundary must be
     MemoryLimitError; the hook tracks the accounted usage (must never exceed M by more than one
     instruction's worth), the host recursion depth and call depth.
  2. residue monitor: every iteration of a bounded body calls mark(); the Python side of mark reads the
     live VM (operand stack, call stack, handler stack, native depth) - the depths at the same
     script point must be identical on every iteration (an abrupt exit that leaves a slot or a handler
     behind shows up as a strictly growing series long before any MemoryLimitError).
  3. scaling oracle: B x N under a small M must succeed for N in {1, 10, 1000[, 30000]}.
  4. icontract postcondition on VM.run: all three stacks empty on normal return.
"""
import random

from vf import places, skel
from vf.common import h
from vf.runner import engine_pool

RECURSION = [
    ("self", "function r(n){ return r(n + 1); } r(0);"),
    ("self-operands", "function r(n){ return 1 + r(n + 1); } r(0);"),
    ("self-many-operands", "function r(n){ return [n, n, n, r(n + 1)]; } r(0);"),
    ("mutual", "function a(n){ return b(n + 1); } function b(n){ return c(n + 1); } function c(n){ return a(n + 1); } a(0);"),
    ("method", "var o = { m: function(n){ return this.m(n + 1); } }; o.m(0);"),
    ("ctor", "function K(n){ this.k = new K(n + 1); } new K(0);"),
    ("closure", "function mk(){ var f = function(n){ return f(n + 1); }; return f; } mk()(0);"),
    ("named-fe", "var f = function me(n){ return me(n + 1); }; f(0);"),
    ("arrow", "var f = (n) => f(n + 1); f(0);"),
    ("try-recursion", "function r(n){ try { return r(n + 1); } finally { } } r(0);"),
    ("catch-recursion", "function r(n){ try { throw n; } catch (e) { return r(e + 1); } } r(0);"),
    ("operand-loop", "function r(n){ return n + (n < 1e9 ? r(n + 1) : 0); } r(0);"),
]
for m in places.CALLBACK_METHODS:
    if m in ("reduce", "reduceRight"):
        RECURSION.append(("cb:" + m, "function r(){ [1, 2].%s(function(a, b){ r(); return 0; }, 0); } r();" % m))
    else:
        RECURSION.append(("cb:" + m, "function r(){ [1].%s(function(x){ r(); return 0; }); } r();" % m))
RECURSION += [
    ("cb:sort", "function r(){ [2, 1].sort(function(a, b){ r(); return 0; }); } r();"),
    ("getter", "var o = { get p(){ return o.p; } }; o.p;"),
    ("setter", "var o = { set p(v){ o.p = v; } }; o.p = 1;"),
    ("valueOf", "var o = { valueOf: function(){ return o + 1; } }; o + 1;"),
    ("toString", "var o = { toString: function(){ return '' + o; } }; '' + o;"),
    ("call", "function r(){ return r.call(null); } r();"),
    ("apply", "function r(){ return r.apply(null, []); } r();"),
    ("bind", "function r(){ return r.bind(null)(); } r();"),
    ("eval", "function r(){ return eval('r()'); } r();"),
    ("eval-string-grows", "function r(){ return eval('1 + r()'); } r();"),
    ("mixed-cb-getter", "var o = { get p(){ return [1].map(function(){ return o.p; }); } }; o.p;"),
    # every other native-to-script route (the deeper the host stack per level, the sooner the host limit is met)
    ("replace-string-fn", "function r(){ 'a'.replace('a', function(){ r(); return 'b'; }); } r();"),
    ("replaceAll-string-fn", "function r(){ 'aa'.replaceAll('a', function(){ r(); return 'b'; }); } r();"),
    ("replace-regexp-fn", "function r(){ 'a'.replace(/a/g, function(){ r(); return 'b'; }); } r();"),
    ("replace-mutual", "function p(){ 'a'.replace('a', q); return 'x'; } function q(){ 'b'.replace(/b/, p); return 'y'; } p();"),
    ("String()-toString", "var o = {toString: function(){ return String(o); }}; String(o);"),
    ("JSON-getter", "var o = {get p(){ return JSON.stringify(o); }}; JSON.stringify(o);"),
    ("values-getter", "var o = {get p(){ return Object.values(o); }}; Object.values(o);"),
    ("assign-getter-setter", "var o = {get p(){ return Object.assign({}, o); }}; Object.assign({}, o);"),
    ("setter-via-assign", "var t = {set p(v){ Object.assign(t, {p: 1}); }}; Object.assign(t, {p: 1});"),
    ("concat-valueOf-in-callback", "function r(){ return [1].map(function(){ return '' + {toString: r}; }); } r();"),
    ("bound-callback", "function r(){ [1].forEach(r.bind(null)); } r();"),
    ("apply-in-reduce", "function r(){ return [1, 2].reduce(function(a){ return r.apply(null, []); }, 0); } r();"),
    ("new-in-callback", "function K(){ [1].map(function(){ return new K(); }); } new K();"),
    # recursion that alternates nested evaluators (eval / new Function: a VM of their own) with every other native-to-script
    # transition: the depth accounting has to carry across VM boundaries
    ("eval+forEach", "function r(){ [1].forEach(function(){ eval('r()'); }); } r();"),
    ("eval+getter", "var o = { get p(){ return eval('o.p'); } }; o.p;"),
    ("eval+valueOf", "var o = { valueOf: function(){ return eval('o + 1'); } }; o + 1;"),
    ("eval+sort", "function r(){ [2, 1].sort(function(){ eval('r()'); return 0; }); } r();"),
    ("eval+call", "function r(){ return r.call(null, eval('1')) + eval('r()'); } r();"),
    ("eval+reduce", "function r(){ return [1, 2].reduce(function(a){ return a + eval('r()'); }, 0); } r();"),
    ("Function+map", "function r(){ return [1].map(new Function('return r()')); } r();"),
    ("Function+toString", "var o = { toString: new Function('return String(o)') }; '' + o;"),
    ("eval-in-eval+cb", "function r(){ return eval(\"eval('[1].map(function(){ return r(); })')\"); } r();"),
    ("replace-fn+eval", "function r(){ return 'a'.replace(/a/, function(){ return eval('r()'); }); } r();"),
    ("JSON-getter+eval", "var o = { get p(){ return eval('JSON.stringify(o)'); } }; JSON.stringify(o);"),
]
# the callback-taking built-ins reached through another object than their usual receiver: borrowed with call/apply, inherited by an
# object created from the prototype, taken off the prototype object itself
for _m, _args in (("sort", "function (a, b) { return f(); }"), ("map", "function () { return f(); }"), ("forEach", "function () { f(); }"), ("filter", "function () { return f(); }"),
                  ("reduce", "function (a) { return f(); }, 0"), ("some", "function () { return f(); }"), ("find", "function () { return f(); }")):
    RECURSION.append(("borrowed-call:" + _m, "function f() { return Array.prototype.%s.call([2, 1, 3], %s); } f();" % (_m, _args)))
    RECURSION.append(("inherited:" + _m, "var inh = Object.create(Array.prototype).%s; function f() { return inh.call([2, 1, 3], %s); } f();" % (_m, _args)))
    RECURSION.append(("borrowed-apply:" + _m, "var bm = [].%s; function f() { return bm.apply([2, 1, 3], [%s]); } f();" % (_m, _args)))
RECURSION += [("borrowed-call:replace", "var rp = ''.replace; function f() { return rp.call('a', 'a', function () { return f(); }); } f();"),
              ("conversion-in-join", "var o = {toString: function () { return [o].join(); }}; '' + o;"), ("conversion-in-stringify", "var js = JSON.stringify; var o = {get p() { return js.call(null, o); }}; js(o);")]
# plain script-to-script recursion (which never touches native code again) STARTED from inside script code that native code
# invoked: the accounting has to go on in whichever interpreter loop runs the callee
_PLAIN = {"self": "function r(n){ return r(n + 1); }", "operands": "function r(n){ return 1 + r(n + 1); }", "mutual": "function r(n){ return r2(n + 1); } function r2(n){ return r(n + 1); }",
          "method": "var ro = {m: function(n){ return this.m(n + 1); }}; function r(n){ return ro.m(n); }", "ctor": "function RK(n){ this.k = new RK(n + 1); } function r(n){ return new RK(n); }"}
_ENTRIES = {"forEach": "[1].forEach(function(){ r(0); });", "map": "[1].map(function(){ return r(0); });", "sort": "[2, 1].sort(function(){ r(0); return 0; });", "reduce": "[1, 2].reduce(function(){ return r(0); }, 0);",
            "getter": "({get g(){ return r(0); }}).g;", "setter": "({set s(v){ r(0); }}).s = 1;", "valueOf": "({valueOf: function(){ return r(0); }}) + 1;", "toString": "String({toString: function(){ return r(0); }});",
            "call": "(function(){ return r(0); }).call(null);", "apply": "r.apply(null, [0]);", "bind": "r.bind(null, 0)();", "replace-fn": "'a'.replace('a', function(){ return r(0); });",
            "replace-regexp-fn": "'a'.replace(/a/, function(){ return r(0); });", "JSON-getter": "JSON.stringify({get g(){ return r(0); }});", "assign-getter": "Object.assign({}, {get g(){ return r(0); }});",
            "eval": "eval('r(0)');", "indirect-eval": "(0, eval)('r(0)');", "Function": "new Function('return r(0)')();", "two-natives": "[1].map(function(){ return [2].filter(function(){ return r(0); }); });",
            "callback-in-getter": "({get g(){ return [1].map(function(){ return r(0); }); }}).g;", "new-in-callback": "[1].forEach(function(){ new (function(){ r(0); })(); });", "find": "[1].find(function(){ return r(0); });",
            "every": "[1].every(function(){ return r(0); });", "Array.from": "typeof Array.from === 'function' ? Array.from([1], function(){ return r(0); }) : r(0);"}
for _pn, _p in _PLAIN.items():
    for _en, _e in _ENTRIES.items():
        RECURSION.append(("entered-from:%s/%s" % (_en, _pn), _p + " " + _e))
MS = [20000, 100000, 1000000, 10000000]
PINNED_SHAPES = {"conversion-in-join", "conversion-in-stringify"}


def bounded_bodies(ctx):
    """(id, source-of-one-iteration, prelude)."""
    out = []
    ctxs = ["stmt", "left+", "arg1", "array", "forin-array"] if ctx.quick else list(skel.CONTEXTS)
    for ident, _ in skel.enumerate_skeletons(depth2=True, contexts=["stmt"]):
        outer, inner, ex, _c = ident
        for cn in ctxs:
            if ctx.quick and cn != "stmt" and (hash_small(ident) % 4):
                continue
            b = skel.body(None if outer == "None" else outer, inner, ex)
            g = "function g() { " + b + " return 'N'; }\n"
            call = skel.CONTEXTS[cn].replace("log('r', ", "keep(")
            out.append({"id": h(["body", ident, cn]), "ident": list(ident) + [cn], "pre": skel.PRELUDE + skel.CTX_PRELUDE + g,
                        "iter": "try { " + call + " } catch (E) { }"})
    # statement-level bodies directly in the loop (no function boundary to clean up after them)
    for inner in skel.CONSTRUCTS:
        for ex in ("none", "break", "continue", "throw", "throw-expr", "throw-callee", "throw-callback"):
            if ex == "break" and inner not in skel.BREAKABLE:
                continue
            if ex == "continue" and inner not in skel.LOOPS:
                continue
            b = skel.body(None, inner, ex)
            out.append({"id": h(["inline", inner, ex]), "ident": ["inline", inner, ex], "pre": skel.PRELUDE + skel.CTX_PRELUDE,
                        "iter": "try { " + b + " } catch (E) { }"})
    # an abrupt completion pending in try/catch (return value, exception, break, continue) overridden by a jump out of the finally
    # block - the construct must give up whatever the pending completion kept on the operand stack, also when the abandoned jump
    # was leaving constructs that keep operand slots of their own (skel.override_bodies; the bodies sit directly in the monitored
    # loop: 'continue' targets it; 'return' needs the in-function variant and is overridden, so the loop goes on)
    for kind, a, b, c, body in skel.override_bodies():
        ident_hash = [kind, a, b] if kind == "finally-override" else [kind, a, b, c]
        ident = [kind, a, b] if kind == "finally-override" else [kind, a, b + "/" + c]
        out.append({"id": h(ident_hash), "ident": ident, "pre": skel.PRELUDE + skel.CTX_PRELUDE, "iter": body, "needs_function": "return" in body})
    # ... and the same bodies inside a function whose call is an operand of the caller (the abandoned jump must not touch the caller's operands)
    for kind, a, b, c, body in skel.override_bodies():
        g = "function g() { for (var I = 0; I < 2; I++) { " + body + " } return 'N'; }\n"
        for cn in ("stmt", "arg1", "array", "forin-array", "switch-arg", "forof-sum"):
            if ctx.quick and cn not in ("array", "forin-array") and hash_small([kind, a, b, c, cn]) % 3:
                continue
            call = skel.CONTEXTS[cn].replace("log('r', ", "keep(")
            out.append({"id": h(["override-in-g", kind, a, b, c, cn]), "ident": [kind + "-in-callee", a, b + ("/" + c if c else ""), cn], "pre": skel.PRELUDE + skel.CTX_PRELUDE + g,
                        "iter": "try { " + call + " } catch (E) { }"})
    # expression statements: every expression form, as a statement, as a discarded operand and as a condition.  (Forms this engine
    # does not parse are skipped: the case is judged only when the program compiles.)
    for en, e in EXPR_ZOO:
        for fn, f in (("stmt", "%s;"), ("arg", "keep(%s);"), ("cond", "if (%s) { keep(1); }"), ("operand", "keep(1 + (%s));"), ("seq", "keep((%s, 1));")):
            if ctx.quick and fn in ("operand", "seq") and hash_small([en, fn]) % 3:
                continue
            out.append({"id": h(["expr-zoo", en, fn]), "ident": ["expr-zoo", en, fn], "pre": skel.PRELUDE + skel.CTX_PRELUDE + ZOO_PRELUDE,
                        "iter": "try { " + (f % e) + " } catch (E) { }", "may_not_parse": True})
    # random operator trees (the value-semantics generator's grammar) as statements, and under delete / void / typeof
    from vf import exprgen
    rng = random.Random(ctx.seed * 7 + 1)
    for i in range(150 if ctx.quick else 1500):
        t = exprgen.random_tree(rng, rng.randint(1, 3))
        src = exprgen.render(exprgen.toks(t))
        w = rng.choice(["%s;", "delete (%s);", "void (%s);", "typeof (%s);", "keep(delete (%s));", "(%s) ? keep(1) : keep(2);", "[%s];", "({k: %s});"])
        out.append({"id": h(["expr-rnd", src, w]), "ident": ["expr-rnd", w, src[:60]], "pre": skel.PRELUDE + skel.CTX_PRELUDE + "var arr = [1, 2, 3]; function f(x, y) { return x; } function F(x) { this.v = x; }\n" + exprgen.PRELUDE,
                    "iter": "try { " + (w % src) + " } catch (E) { }", "may_not_parse": True})
    return out


ZOO_PRELUDE = ("var o = {p: 1, q: {r: 2}, m: function (x) { return x; }, get g() { return 1; }, set g(v) { }}; var arr = [1, 2, 3]; var a = 1, b = 2, nul = null; "
               "function f(x) { return x; } function F(x) { this.v = x; } function thrower() { throw 1; } var s = 'str';\n")
EXPR_ZOO = [(e, e) for e in [
    # delete in every operand form
    "delete o.p", "delete o['p']", "delete o[f('p')]", "delete o.q.r", "delete f()", "delete f(1, 2)", "delete (1 + 2)", "delete 1", "delete 'x'", "delete [1, 2]",
    "delete {a: 1}", "delete (a, b)", "delete this", "delete arr[0]", "delete arr[f(1)]", "delete o.m(1)", "delete new F(1)", "delete (a ? o : arr)", "delete !a",
    "delete typeof a", "delete void 0", "delete delete o.p", "delete nul.x", "delete thrower()", "delete o[thrower()]", "delete (function () {})", "delete s.length",
    "delete arr.length", "delete f", "delete nosuchname", "delete (o.p)", "delete ((o).p)", "delete `t${a}`", "delete /re/", "delete (a = 1)", "delete a++", "delete o?.p",
    # void / typeof
    "void 0", "void f()", "void o.p", "void (a, b)", "void thrower()", "typeof a", "typeof nosuchname", "typeof f()", "typeof o.p", "typeof thrower()", "typeof typeof a",
    # sequence / conditional / logical
    "a, b", "f(1), f(2), f(3)", "(a, thrower(), b)", "a ? b : s", "a ? f(1) : thrower()", "!a ? f(1) : f(2)", "a && f(1)", "a || f(1)", "nul && f(1)", "nul || f(1)",
    "a && b && f(1)", "nul ?? f(1)", "a ?? thrower()", "a && thrower()", "(a || b) && (nul || f(0))", "a ? b ? 1 : 2 : 3",
    # optional chaining
    "o?.p", "nul?.p", "o?.m(1)", "nul?.m(1)", "o?.['p']", "nul?.[f(1)]", "o.q?.r", "nul?.q.r", "o.nosuch?.()", "nul?.p.q.r", "o?.m?.(1)", "f?.(1)",
    # assignment forms
    "a = 1", "a = b = 2", "o.p = 1", "o['p'] = f(1)", "arr[0] = 1", "arr[f(0)] = f(1)", "o.q.r = 2", "a += 1", "o.p += 1", "arr[0] += f(1)", "o[f('p')] *= 2",
    "a &&= 1", "a ||= 1", "nul ??= null", "o.p &&= 2", "o.p ||= 2", "o.zz ??= 2", "arr[5] = thrower()", "o[thrower()] = 1", "nul.x = 1", "nul.x += 1", "o.g = 1", "o.g += 1",
    "[a, b] = [b, a]", "({p: a} = o)", "[a, ...arr2] = arr", "({p: a, ...rest} = o)", "[a = 1, b = 2] = []", "[a, [b]] = [1, [2]]", "[a] = nul",
    # update
    "a++", "++a", "a--", "o.p++", "--o.p", "arr[0]++", "++arr[f(0)]", "o[f('p')]--", "o.q.r++", "nul.x++", "o.g++", "s.length++",
    # calls / new / spread / templates
    "f()", "f(1, 2, 3)", "o.m(1)", "o['m'](1)", "o.q.nosuch()", "new F(1)", "new F", "new F(1).v", "new o.m(1)", "f(...arr)", "f(1, ...arr, 2)", "new F(...arr)", "o.m(...arr)",
    "[...arr]", "[1, ...arr, 2]", "[...s]", "[...nul]", "({...o})", "({...o, z: 1})", "`t`", "`t${a}`", "`${f(1)}${f(2)}`", "`${thrower()}`", "f`t${a}`", "(function () { return 1; })()",
    "(function () { })", "(() => 1)()", "(x => x)(f(1))", "f.call(null, 1)", "f.apply(null, arr)", "f.bind(null)(1)", "thrower.call(null)", "f(thrower())", "f(1, thrower())",
    "thrower(f(1))", "o.m(f(1), thrower())", "new F(thrower())", "arr.map(f)", "arr.forEach(thrower)", "arr.sort(function (x, y) { return x - y; })", "eval('1')", "eval('thrower()')",
    # literals / members / operators
    "[1, 2, 3]", "[1, , 3]", "[f(1), thrower()]", "({a: 1, b: f(2)})", "({a: thrower()})", "({[f('k')]: 1})", "({get x() { return 1; }})", "({m() { return 1; }})", "/re/g", "this",
    "o.p", "o['q']['r']", "arr[arr.length - 1]", "s[0]", "s.length", "arr.length", "o.nosuch", "o.nosuch.deeper", "'p' in o", "f('p') in o", "1 in nul", "o instanceof F",
    "new F(1) instanceof F", "a instanceof nul", "a + b", "a + s", "-a", "+s", "!a", "~a", "a < b", "a == b", "a === b", "a << b", "a ** b", "a % 0", "o + o", "o.q + thrower()",
    "thrower() + o.q", "(a + b) * (a - b)", "arr + ''", "a > b > 0", "({}) + 1", "class K { m() { return 1; } }", "new (class { constructor() { this.x = 1; } })()", "new.target",
    "arguments", "arguments.length", "async function () {}", "function* () {}", "a ? thrower : f", "(a ? thrower : f)()", "(a, f)(1)", "(0, o.m)(1)", "(o.m)(1)",
]]


def hash_small(x):
    return int(h(x, 6), 16)


def loop_program(body, n, in_function):
    loop = "for (var I = 0; I < %d; I++) { mark(); %s }" % (n, body["iter"])
    if in_function:
        loop = "function LOOP() { " + loop + " } LOOP();"
    return ("function log() {}\nfunction keep(v) { return v; }\n" + body["pre"].replace("log('t', k); ", "") + loop +
            "\nmark();\n'done';")


# ---------------- worker side ------------------------------------------------
_CONTRACT = {"installed": False, "evals": 0, "broken": []}


def _install_contract():
    if _CONTRACT["installed"]:
        return
    import icontract
    from vf import engine as E

    class PostBroken(Exception):
        pass

    def stacks_empty_after_run(self, result):
        _CONTRACT["evals"] += 1
        ok = len(self.stack) == 0 and len(self.call_stack) == 0 and len(self.exception_handlers) == 0 \
            and len(getattr(self, "_native_bases", [])) == 0
        if not ok:
            _CONTRACT["broken"].append([len(self.stack), len(self.call_stack), len(self.exception_handlers)])
        return True   # record, do not abort what is being observed
    E.mvm.VM.run = icontract.ensure(stacks_empty_after_run, error=PostBroken)(E.mvm.VM.run)
    _CONTRACT["installed"] = True


def w_recursion(case, opts):
    import sys
    from vf import engine as E
    _install_contract()
    M = case["M"]
    st = {"max_acc": 0, "max_calls": 0, "max_host": 0, "max_stack": 0, "n": 0}

    def mon(vm):
        st["n"] += 1
        acc = len(vm.stack) * 100 + len(vm.call_stack) * 200
        if acc > st["max_acc"]:
            st["max_acc"] = acc
            st["max_calls"] = len(vm.call_stack)
            st["max_stack"] = len(vm.stack)
        if st["n"] % 64 == 0:
            d = 0
            f = sys._getframe()
            while f is not None:
                d += 1
                f = f.f_back
            if d > st["max_host"]:
                st["max_host"] = d
        if acc > M + 5000:
            raise E.VerifAbort("accounted-usage-over-limit")
    _CONTRACT["broken"].clear()
    rec = E.run_js(case["src"], {"ml": M, "tl": None, "max_steps": 6_000_000, "_vm_mons": [mon], "log": False})
    rec.update(st)
    return rec


def w_bounded(case, opts):
    from vf import engine as E
    _install_contract()
    marks = []
    ctx = E.new_context(None, case.get("M"))

    def mark():
        vm = ctx._current_vm
        marks.append([len(vm.stack), len(vm.call_stack), len(vm.exception_handlers), vm.native_depth()
                      if hasattr(vm, "native_depth") else 0])
    ctx.set("mark", mark)
    _CONTRACT["broken"].clear()
    e0 = _CONTRACT["evals"]
    rec = E.run_js(case["src"], {"max_steps": case.get("max_steps", 400_000), "log": False}, ctx=ctx)
    rec["marks_n"] = len(marks)
    inloop = marks[:-1] if rec["out"] == "ok" else marks     # the last mark() sits after the loop, at top level
    rec["marks_distinct"] = [list(x) for x in sorted({tuple(m) for m in inloop})][:6]
    rec["first"] = inloop[0] if inloop else None
    rec["last"] = inloop[-1] if inloop else None
    rec["final"] = marks[-1] if marks and rec["out"] == "ok" else None
    rec["contract_evals"] = _CONTRACT["evals"] - e0
    rec["contract_broken"] = list(_CONTRACT["broken"])
    return rec


def main(ctx):
    rng = random.Random(ctx.seed)
    rcases = []
    for name, src in RECURSION:
        for M in (MS if not ctx.quick else [20000, 1000000, 10000000]):
            rcases.append({"id": h(["rec", name, M]), "name": name, "M": M, "src": src})
        for _ in range(1 if ctx.quick else 4):
            if name in PINNED_SHAPES:
                continue      # listed finding: pinned to the fixed limits (a random limit would be a cell nobody listed)
            M = rng.randint(5000, 3000000)
            rcases.append({"id": h(["rec", name, M]), "name": name, "M": M, "src": src})
    bodies = bounded_bodies(ctx)
    bcases = []
    Ns = [1, 10] if ctx.quick else [1, 10, 200]
    for b in bodies:
        for n in Ns:
            for inf in (False, True):
                if ctx.quick and inf and n == 1:
                    continue
                if b.get("needs_function") and not inf:
                    continue
                bcases.append({"id": h([b["id"], n, inf]), "body": b["ident"], "N": n, "M": 20000, "in_function": inf,
                               "src": loop_program(b, n, inf), "may_not_parse": b.get("may_not_parse", False)})
    # scaling tier: large N on a seed-chosen sample
    sample = rng.sample(bodies, 40 if ctx.quick else 300) + [b for b in bodies if b["ident"][0].startswith("finally-override")]
    bigN = 1000 if ctx.quick else 30000
    for b in sample:
        bcases.append({"id": h([b["id"], bigN, True]), "body": b["ident"], "N": bigN, "M": 20000, "in_function": True,
                       "src": loop_program(b, bigN, True), "max_steps": 40_000_000, "may_not_parse": b.get("may_not_parse", False)})
    ep = engine_pool()
    try:
        rres = ep.map({"mod": "checks.C02", "fn": "w_recursion"}, rcases, batch=4, timeout=300, single_timeout=120)
        bres = ep.map({"mod": "checks.C02", "fn": "w_bounded"}, bcases, batch=30, timeout=600, single_timeout=300)
    finally:
        ep.close()
    stops = 0
    maxhost = 0
    for c, r in zip(rcases, rres):
        ctx.count()
        if r is None or "_fail" in r or "_exc" in r:
            ctx.violation(("recursion-no-clean-stop", c["name"]), {"case": c, "detail": r,
                                                                    "monitor": "stop monitor: worker hang/crash"})
            continue
        maxhost = max(maxhost, r.get("max_host", 0))
        cls = (r.get("err") or {}).get("cls")
        if r["out"] == "jserr" and cls == "MemoryLimitError":
            stops += 1
            ctx.nontrivial(c["id"])
            if r["max_acc"] > c["M"] + 1000:
                ctx.violation(("limit-overshoot", c["name"]), {"case": c, "max_accounted": r["max_acc"], "monitor": "hook: accounted usage"})
            continue
        if c["name"].split(":")[0] in ("borrowed-call", "borrowed-apply", "inherited") and (r["out"] == "ok" or (r["out"] == "jserr" and cls == "JSError")):
            # this engine does not run a borrowed/inherited built-in on the receiver given with call/apply (nothing recurses, the script
            # returns or gets a TypeError): only a crash, a hang or a host exception is judged for these shapes
            continue
        key = "recursion-outcome:" + str(cls or r["out"]) + ":" + str(r.get("abort") or "")
        if ctx.known_cell(c["id"], h(key, 10)):
            continue
        ctx.violation((key, c["name"]), {"case": c, "outcome": r["out"], "err": r.get("err"), "abort": r.get("abort"),
                                         "max_calls": r.get("max_calls"), "max_host_depth": r.get("max_host"),
                                         "monitor": "stop monitor: outcome class at the eval boundary"})
    evals = 0
    leaks = 0
    unparsed = 0
    for c, r in zip(bcases, bres):
        ctx.count()
        if r is None or "_fail" in r or "_exc" in r:
            ctx.violation(("bounded-no-return", tuple(c["body"][:3])), {"case": c, "detail": r})
            continue
        evals += r.get("contract_evals", 0)
        if r.get("marks_n", 0) >= 2:
            ctx.nontrivial(c["id"])
        prob = None
        if r["out"] != "ok" and c.get("may_not_parse") and (r.get("err") or {}).get("cls") in ("JSSyntaxError", "SyntaxError") and r.get("marks_n", 0) == 0:
            unparsed += 1      # an expression form outside this engine's grammar: nothing ran, nothing to judge
            continue
        if r["out"] != "ok":
            cls = (r.get("err") or {}).get("cls")
            prob = "bounded-script-stopped:" + str(cls or r.get("abort") or r["out"])
        elif r["marks_n"] != c["N"] + 1:
            prob = "iterations-lost:%d/%d" % (r["marks_n"], c["N"] + 1)
        elif len(r["marks_distinct"]) != 1:
            prob = "residue"
        elif r.get("final") != [0, 1, 0, 0]:
            prob = "residue-after-loop"
        elif r.get("contract_broken"):
            prob = "stacks-not-empty-after-run"
        if prob is None:
            continue
        leaks += 1
        if ctx.known_cell(c["id"], h(prob, 10)):
            continue
        ctx.violation((prob.split(":")[0], tuple(c["body"][:3])),
                      {"case": c, "problem": prob, "first_mark[stack,calls,handlers,native]": r.get("first"),
                       "last_mark": r.get("last"), "distinct_marks": r.get("marks_distinct"), "err": r.get("err"),
                       "monitor": "residue monitor (mark() reads the live VM) + scaling oracle"})
    if stops == 0:
        ctx.inconclusive_because("no recursion case ended in MemoryLimitError")
    if evals == 0:
        ctx.inconclusive_because("VM.run postcondition was never evaluated")
    ctx.cov["rule"] = ("recursion shapes (direct, mutual, through every callback-taking built-in, accessors, conversions, "
                       "call/apply/bind, eval) x memory limits; bounded bodies = exhaustive control-flow skeletons "
                       "(construct x exit kind x enclosing construct x expression context) repeated N times with a live-VM "
                       "marker each iteration; non-trivial = stopped by MemoryLimitError / >= 2 marks observed; distinct by case id")
    ctx.cov["recursion_cases"] = len(rcases)
    ctx.cov["recursion_stopped_by_MemoryLimitError"] = stops
    ctx.cov["max_host_recursion_depth_seen"] = maxhost
    ctx.cov["bounded_cases"] = len(bcases)
    ctx.cov["largest_N"] = bigN
    ctx.cov["expression_forms_outside_engine_grammar_skipped"] = unparsed
    ctx.cov["vm_run_postcondition_evaluations"] = evals
    for c in (rcases[0], bcases[5], bcases[-1]):
        ctx.sample({k: c[k] for k in c if k != "id"})
    ctx.assumptions += ["ctx._current_vm is the VM executing the marker call", "heap data is out of scope (documented)"]
