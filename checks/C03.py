"""C03 — scripts can reach only JavaScript values, never host internals.

Monitors on the real engine:
  1. operand-stack type sanitizer (step hook): every value on top of the operand stack at every step is
     classified; anything that is not a JS primitive / JSObject / JSFunction / engine-internal transient /
     sanctioned callable (exposed host function, initial-global-graph callable, native closure defined
     inside the microjs package) is a violation recorded with opcode context.
  2. fresh-name metamorphic oracle: for receiver kind R, access form F and a name N from the host
     vocabulary (every attribute of every engine class and instance, the Python dunder vocabulary),
     obs(R,F,N) must equal obs(R,F,N') for a never-used fresh name N' (after renaming).  Names that have an
     ECMAScript meaning on R (asked of node: N in Object(R)) or a documented engine meaning are excluded.
  3. invocation log checker: an exposed host function runs iff a call site executes; every access form
     that must not invoke it is exercised with a side-effect counter; arguments are JS values.
  4. boundary: eval/get results contain no host objects (typed encoding tags anything else as HOST).
"""
import json
import random

from vf import progen
from vf.common import h
from vf.runner import engine_pool, have_node, node_pool

TYPED = ["Int8Array", "Uint8Array", "Uint8ClampedArray", "Int16Array", "Uint16Array", "Int32Array", "Uint32Array",
         "Float32Array", "Float64Array"]
RECEIVERS = {
    "number": "(5)", "string": "('abc')", "boolean": "(true)", "object": "({a: 1})", "nullproto": "(Object.create(null))",
    "array": "([1, 2])", "arraybuffer": "(new ArrayBuffer(4))", "function": "(function f(a) { return a; })",
    "arrow": "((x) => x)", "bound": "((function () {}).bind(null))", "native-method": "([].push)",
    "proto-method": "(({}).toString)", "Object": "(Object)", "Error": "(Error)", "Array": "(Array)", "regex": "(/a/g)",
    "error": "(new Error('m'))", "arguments": "((function () { return arguments; })(1, 2))", "Math": "(Math)",
    "JSON": "(JSON)", "console": "(console)", "hostfn": "(hostfn)", "eval": "(eval)", "Date": "(Date)",
    "Function": "(Function)", "match-result": "(/a/.exec('a'))", "parseInt": "(parseInt)", "Number": "(Number)",
    "caught-typeerror": "((function () { try { null.x; } catch (e) { return e; } })())",
}
for t in TYPED:
    RECEIVERS[t] = "(new %s(2))" % t

# names with an engine-documented meaning (README: thrown errors carry lineNumber/columnNumber) or engine-specific
ENGINE_DOCUMENTED = {"lineNumber", "columnNumber", "stack"}

FORMS = {
    "read": "var R = %(R)s; R[%(N)s]",
    "read-concat": "var R = %(R)s; var k = %(N)s; R[k.slice(0, 1) + k.slice(1)]",
    "typeof-read": "var R = %(R)s; typeof R[%(N)s]",
    "call": "var R = %(R)s; (function () { try { return ['ret', R[%(N)s]()]; } catch (e) { return ['threw', e && e.name]; } })()",
    "write-read": "var R = %(R)s; (function () { try { R[%(N)s] = 123; } catch (e) { return ['threw', e && e.name]; } return ['read', R[%(N)s]]; })()",
    "delete": "var R = %(R)s; (function () { try { return ['del', delete R[%(N)s], R[%(N)s]]; } catch (e) { return ['threw', e && e.name]; } })()",
    "in": "var R = %(R)s; (function () { try { return ['in', %(N)s in R]; } catch (e) { return ['threw', e && e.name]; } })()",
    "forin": "var R = %(R)s; (function () { var ks = []; for (var k in R) { ks.push(k); } return ks.indexOf(%(N)s); })()",
    "keys": "var R = %(R)s; (function () { try { return Object.keys(R).indexOf(%(N)s); } catch (e) { return ['threw', e && e.name]; } })()",
    "stringify": "var R = %(R)s; (function () { try { return JSON.stringify(R); } catch (e) { return ['threw', e && e.name]; } })()",
    "instanceof": "var R = %(R)s; (function () { try { return ['io', ({}) instanceof R[%(N)s]]; } catch (e) { return ['threw', e && e.name]; } })()",
    "new": "var R = %(R)s; (function () { try { return ['new', typeof new (R[%(N)s])()]; } catch (e) { return ['threw', e && e.name]; } })()",
    "as-prototype": "var R = %(R)s; (function () { try { var c = Object.create(R); return ['child', c[%(N)s], typeof c[%(N)s]]; } catch (e) { return ['threw', e && e.name]; } })()",
    "hasOwn": "var R = %(R)s; (function () { try { return ['own', Object.prototype.hasOwnProperty.call(R, %(N)s)]; } catch (e) { return ['threw', e && e.name]; } })()",
    "descriptor": "var R = %(R)s; (function () { try { var d = Object.getOwnPropertyDescriptor(R, %(N)s); return ['desc', d === undefined ? 'none' : typeof d.value]; } catch (e) { return ['threw', e && e.name]; } })()",
    "literal-key": "var o = {}; o[%(N)s] = 5; [o[%(N)s], Object.keys(o).length, JSON.stringify(o), %(N)s in o, (function () { for (var k in o) { return k; } })()]",
}


# ---------------- worker side ---------------------------------------------------------------------
def host_vocabulary():
    """Every attribute name of every engine class/instance + the Python dunder vocabulary."""
    import inspect
    import microjs
    from microjs import compiler, context, values, vm
    from microjs import regex as rx
    names = set()
    mods = [values, vm, context, compiler, rx, microjs.lexer, microjs.parser, microjs.errors]
    for m in mods:
        for _, cls in inspect.getmembers(m, inspect.isclass):
            if getattr(cls, "__module__", "").startswith("microjs"):
                names.update(dir(cls))
    c = context.Context()
    insts = [c, values.JSObject(), values.JSArray(), values.JSFunction("f", [], b""), values.JSRegExp("a", "g"),
             values.JSInt8Array(1), values.JSArrayBuffer(1), vm.VM(), values.UNDEFINED, values.NULL,
             values.JSBoundMethod(len), c._globals["Object"], c._globals["Math"]]
    for i in insts:
        names.update(dir(i))
        names.update(getattr(i, "__dict__", {}).keys())
    names.update(dir(object))
    names.update(dir(type))
    names.update(dir(lambda: 0))
    names.update(dir((lambda: 0).__code__))
    for sample in ([], {}, "", 0, 0.0, True, b"", (), set(), None, 1j, range(0), iter([]), Exception()):
        names.update(dir(sample))
    names.update(["__builtins__", "__import__", "__globals__", "__subclasses__", "__mro__", "__bases__", "__self__", "__func__",
                  "__closure__", "__code__", "__wrapped__", "f_back", "f_globals", "gi_frame", "cr_frame", "tb_frame"])
    return sorted(n for n in names if isinstance(n, str) and n)


def w_vocab(case, opts):
    return {"names": host_vocabulary()}


class Sanitizer:
    """Operand-stack type sanitizer."""

    def __init__(self, E, ctx, exposed):
        from microjs import values as V
        from microjs import vm as mvm
        from microjs.compiler import CompiledFunction
        self.E = E
        self.ok_types = {V.JSUndefined, V.JSNull, bool, int, float, str, V.JSFunction, mvm.ForInIterator,
                         mvm.ForOfIterator, CompiledFunction, V.JSBoundMethod}
        self.JSObject = V.JSObject
        self.internal_types = {mvm.ForInIterator, mvm.ForOfIterator, CompiledFunction}
        self.containers = 0
        self.exposed = {id(f) for f in exposed}
        self.keep = list(exposed)
        self.initial = set()
        self.pkg = E.PKG_DIR
        self.bad = []
        self.seen_types = {}
        self.native_closures = 0
        self.checked = 0
        seen = set()

        def walk(v):
            if id(v) in seen:
                return
            seen.add(id(v))
            if isinstance(v, V.JSObject):
                for x in v._properties.values():
                    walk(x)
                for x in list(v._getters.values()) + list(v._setters.values()):
                    walk(x)
                p = getattr(v, "_prototype", None)
                if p is not None:
                    walk(p)
                if hasattr(v, "_call_fn"):
                    self.initial.add(id(v._call_fn))
            elif callable(v):
                self.initial.add(id(v))
                if hasattr(v, "__func__"):
                    self.initial.add(id(v.__func__))
        for g in ctx._globals.values():
            walk(g)
        self._keep_graph = seen

    def classify(self, v):
        t = type(v)
        if t in self.ok_types:
            return None
        if isinstance(v, self.JSObject):
            self.ok_types.add(t)
            return None
        if callable(v) and not isinstance(v, type):
            if id(v) in self.exposed or id(v) in self.initial:
                return None
            f = getattr(v, "__func__", None)
            if f is not None and id(f) in self.initial:
                return None       # bound method object re-created on attribute access (ctx._console_log ...)
            code = getattr(v, "__code__", None) or getattr(f, "__code__", None)
            qn = getattr(v, "__qualname__", "")
            if code is not None and qn == "run_js.<locals>._log":
                return None       # the harness's own exposed observation channel
            if code is not None and code.co_filename.startswith(self.pkg) and "<locals>" in qn:
                self.native_closures += 1
                return None       # per-access native method closure / bind result
            return "callable:%s:%s" % (t.__name__, qn or repr(v)[:60])
        return "host:%s" % t.__name__

    def held_ok(self, v):
        """A value HELD by script data (array element, property value): interpreter-internal operands (loop iterators, code objects)
        are legitimate on the operand stack only."""
        t = type(v)
        if t in self.internal_types:
            return "internal:%s" % t.__name__
        if t in self.ok_types:
            return None
        return self.classify(v)

    def mon(self, vm):
        st = vm.stack
        n = len(st)
        if not n:
            return
        self.checked += 1
        for k in (1, 2):
            if n >= k:
                v = st[-k]
                t = type(v)
                if t in self.ok_types:
                    self.seen_types[t.__name__] = self.seen_types.get(t.__name__, 0) + 1
                    continue
                why = self.classify(v)
                if not why and k == 1:
                    # a container on top of the stack: what it holds (first/last few) must be script values
                    els = getattr(v, "_elements", None)
                    held = []
                    if isinstance(els, list) and els:
                        held = els[:6] + els[-6:] if len(els) > 12 else els
                    props = getattr(v, "_properties", None)
                    if isinstance(props, dict) and props and len(props) <= 12:
                        held = list(held) + list(props.values())
                    for x in held:
                        why = self.held_ok(x)
                        if why:
                            why = "held-in-%s:%s" % (t.__name__, why)
                            break
                    self.containers += 1
                if why and len(self.bad) < 5:
                    fr = vm.call_stack[-1] if vm.call_stack else None
                    self.bad.append([why, fr.func.name if fr else None, fr.ip if fr else None])


def w_probe(case, opts):
    """case = {progs:[src...]}: evaluate each on a fresh context with the sanitizer on; compact typed results."""
    from vf import engine as E
    res = []
    calls = []

    cur = {"san": None, "bad_args": []}

    def hostfn(*args):
        calls.append(len(args))
        for a in args:          # a host function is called with JavaScript values only
            why = cur["san"].classify(a) if cur["san"] is not None else None
            if why and len(cur["bad_args"]) < 5:
                cur["bad_args"].append(["host-function-argument:" + why, "hostfn", len(args)])
        return 7
    totals = {"checked": 0, "native_closures": 0}
    for src in case["progs"]:
        ctx = E.new_context()
        ctx.set("hostfn", hostfn)
        san = Sanitizer(E, ctx, [hostfn])
        cur["san"] = san
        cur["bad_args"] = san.bad      # same list: reported together
        n0 = len(calls)
        r = E.run_js(src, {"_vm_mons": [san.mon], "max_steps": 200000, "log": case.get("log", False)}, ctx=ctx)
        totals["checked"] += san.checked
        totals["native_closures"] += san.native_closures
        ent = {"o": r["out"]}
        if r["out"] == "ok":
            ent["ret"] = r["ret"]
            ent["py"] = r["py"]
        else:
            ent["err"] = [r.get("err", {}).get("cls"), r.get("err", {}).get("name")] if r.get("err") else r.get("abort")
            if (r.get("err") or {}).get("kind") == "host":
                ent["site"] = r["err"].get("site")
        if san.bad:
            ent["bad"] = san.bad
        if len(calls) != n0:
            ent["host_calls"] = len(calls) - n0
        if case.get("log"):
            ent["log"] = r.get("log")
        res.append(ent)
    return {"res": res, "totals": totals}


def w_invocations(case, opts):
    """Exposed function with call-site ids: invocations <-> executed call sites must be a bijection, in order."""
    from vf import engine as E
    out = []
    for prog in case["progs"]:
        ctx = E.new_context()
        inv = []

        def hostfn(*args):
            inv.append([E.enc(a, {}) for a in args])
            return len(inv)
        ctx.set("hostfn", hostfn)
        san = Sanitizer(E, ctx, [hostfn])
        r = E.run_js(prog["src"], {"_vm_mons": [san.mon], "log": False, "max_steps": 200000}, ctx=ctx)
        out.append({"o": r["out"], "py": r.get("py"), "inv": inv, "bad": san.bad, "err": r.get("err")})
    return {"res": out}


# what an embedder's functions and set() calls hand to the engine: every Python value shape, empty / falsy / nested / exotic
HOST_VALUES = [
    "None", "True", "False", "0", "1", "-1", "0.0", "-0.0", "1.5", "float('nan')", "float('inf')", "2**53", "2**70", "-2**70", "10**400", "''", "'x'", "'\\x00'", "'\\ud800'",
    "[]", "{}", "()", "set()", "frozenset()", "b''", "bytearray()", "range(0)", "[[]]", "[{}]", "[None]", "[()]", "{'a': []}", "{'a': {}}", "{'a': None}", "{'a': ()}",
    "{'name': 'x', 'tags': [], 'meta': {}}", "[1, [], {}, 'x', None, [[], [{}]]]", "{'a': {'b': {'c': []}}}", "(1, 2)", "[(1, 2)]", "{'t': (1, 2)}", "{1, 2}", "[{1}]", "b'ab'", "[b'ab']",
    "{'b': b''}", "range(3)", "[range(3)]", "1j", "0j", "[0j]", "{'c': 1j}", "__import__('decimal').Decimal(0)", "__import__('decimal').Decimal('1.5')", "[__import__('decimal').Decimal(0)]",
    "__import__('fractions').Fraction(1, 3)", "__import__('collections').OrderedDict()", "__import__('collections').OrderedDict(a=1)", "__import__('collections').deque()",
    "__import__('collections').defaultdict(list)", "__import__('collections').Counter()", "[__import__('collections').deque()]", "object()", "[object()]", "{'o': object()}", "NotImplemented",
    "Ellipsis", "[Ellipsis]", "__import__('os')", "[__import__('os')]", "{'m': __import__('sys')}", "iter([])", "(x for x in [])", "[iter([1])]", "memoryview(b'')",
    "{1: 'a', 2: 'b'}", "{None: 1}", "{(1, 2): 1}", "{'': ''}", "{'__proto__': 1}", "{'length': 0}", "[True, False, 0, '']", "{'f': False, 'z': 0, 'e': '', 'n': None}",
    "__import__('datetime').date(2020, 1, 1)", "__import__('pathlib').Path('.')", "__import__('array').array('i')", "slice(0)", "Exception('x')", "[Exception('x')]", "__import__('enum').Enum('E', 'A').A",
    "__import__('types').SimpleNamespace()", "__import__('types').SimpleNamespace(a=[])", "__import__('types').MappingProxyType({})",
]
HOST_ROUTES = {
    "return": "var v = hostret();",
    "return-via-call": "var v = hostret.call(null);",
    "return-via-callback": "var v = [1].map(hostret)[0];",
    "return-via-getter-fn": "var v = ({get g() { return hostret(); }}).g;",
    "return-via-valueOf": "var v; try { v = ({valueOf: hostret}) + 1; } catch (e) { v = 0; } v = hostret();",
    "return-as-replacer": "var v; try { v = 'a'.replace('a', hostret); } catch (e) { v = 0; }",
    "return-as-comparator": "var v; try { v = [2, 1].sort(hostret); } catch (e) { v = 0; }",
    "global-set": "var v = hostval;",
    "global-set-typeof": "var v = typeof hostval === 'undefined' ? undefined : hostval;",
}
HOST_USE = ("log(typeof v, v === undefined, v === null, Array.isArray(v)); var w = [v, {k: v}]; hostfn(v, w); log(w[0], w[1].k);\n"
            "function walk(x, d) { hostfn(x); if (d < 4 && x !== null && typeof x === 'object') { for (var k in x) { walk(x[k], d + 1); } } }\n"
            "try { walk(v, 0); } catch (e) { log('walk', e.name); }\n"
            "try { log(JSON.stringify(v)); } catch (e) { log('json', e.name); }\n"
            "try { log(String(v)); } catch (e) { log('string', e.name); }\n"
            "try { log(v ? 1 : 2, v == null, [v].length, [v].concat(v).length); } catch (e) { log('ops', e.name); }\n"
            "try { log(v.length, v[0], v.a, v.tags, v.meta); } catch (e) { log('props', e.name); }\n"
            "v;")


def w_hostvalues(case, opts):
    """Each host value on each route from the embedder into a script, under the operand-stack sanitizer; the host function that
    receives values back classifies each argument; the eval result goes through the typed boundary encoding."""
    from vf import engine as E
    out = []
    for vi, route in case["items"]:
        try:
            val = eval(HOST_VALUES[vi])
        except Exception as ex:      # noqa
            out.append({"o": "skip", "why": repr(ex)})
            continue
        cur = {"san": None}
        calls = []
        bad = []

        def hostfn(*args):
            calls.append(len(args))
            for a in args:
                why = cur["san"].classify(a)
                if why and len(bad) < 5:
                    bad.append(["host-function-argument:" + why, "hostfn", len(args)])
            return 7

        def hostret(*args):
            return val
        ctx = E.new_context()
        ctx.set("hostfn", hostfn)
        ctx.set("hostret", hostret)
        ent = {}
        if route.startswith("global-set"):
            try:
                ctx.set("hostval", val)
            except Exception as ex:   # an embedder-facing refusal is fine; what reaches the script is what is judged
                ent["set_refused"] = type(ex).__name__
        san = Sanitizer(E, ctx, [hostfn, hostret])
        cur["san"] = san
        r = E.run_js(HOST_ROUTES[route] + "\n" + HOST_USE, {"_vm_mons": [san.mon], "max_steps": 200000, "log": True}, ctx=ctx)
        ent.update({"o": r["out"], "ret": r.get("ret"), "py": r.get("py"), "log": r.get("log"), "bad": san.bad + bad, "checked": san.checked, "host_calls": len(calls)})
        if r["out"] != "ok":
            ent["err"] = r.get("err") or r.get("abort")
        # the same value read back by the embedder
        try:
            got = ctx.get("v") if r["out"] == "ok" else None
            ent["get"] = E.encpy(got)
        except Exception as ex:  # noqa
            ent["get_exc"] = E.describe_exc(ex)
        out.append(ent)
    return {"res": out}


# an exposed function stored where the ENGINE looks things up for its own purposes (global names of error constructors and other
# built-ins, methods of built-in prototypes and namespaces) must not run unless ECMAScript itself would call a function stored there
REBIND_GLOBALS = ["Error", "TypeError", "RangeError", "SyntaxError", "ReferenceError", "EvalError", "URIError", "Object", "Array", "String", "Number", "Boolean", "Function", "RegExp", "Date", "Math", "JSON",
                  "parseInt", "parseFloat", "isNaN", "isFinite", "eval", "console", "undefined", "NaN", "Infinity", "Symbol", "Map", "Set", "globalThis", "toString", "valueOf", "constructor", "length",
                  "prototype", "hasOwnProperty", "call", "apply", "bind", "Int8Array", "Uint8Array", "Float64Array", "ArrayBuffer", "escape", "log", "print"]
REBIND_PROPS = ["Object.prototype.toString", "Object.prototype.valueOf", "Object.prototype.hasOwnProperty", "Object.prototype.constructor", "Array.prototype.join", "Array.prototype.push", "Array.prototype.toString",
                "Array.prototype.slice", "Array.prototype.indexOf", "Array.prototype.concat", "Array.prototype.constructor", "String.prototype.indexOf", "String.prototype.toString", "String.prototype.valueOf",
                "String.prototype.split", "String.prototype.replace", "Number.prototype.toString", "Number.prototype.valueOf", "Function.prototype.call", "Function.prototype.apply", "Function.prototype.bind",
                "Function.prototype.toString", "RegExp.prototype.exec", "RegExp.prototype.test", "RegExp.prototype.toString", "Error.prototype.toString", "Error.prototype.name", "Error.prototype.message",
                "TypeError.prototype.constructor", "Math.max", "Math.floor", "Math.abs", "JSON.stringify", "JSON.parse", "Object.keys", "Object.create", "Object.defineProperty", "Object.getPrototypeOf",
                "Array.isArray", "String.fromCharCode", "Number.isNaN", "Date.now", "console.log", "Object.prototype.then", "Object.prototype.toJSON", "Object.prototype.length", "Array.prototype.length"]
REBIND_TRIGGERS = ["null.x;", "undefinedVariable_q;", "new Array(-1);", "JSON.parse('{');", "(void 0)();", "'a'.repeat(-1);", "({}) instanceof 5;", "'x' in 5;", "new (function () { }.bind())();", "[].reduce(function () { });",
                   "(5).toFixed(200);", "new RegExp('(');", "eval('1 +');", "x_undeclared = 1;", "null.y = 1;", "[1, 2].map(String);", "'' + {};", "'' + [1, [2]];", "+{};", "[3, 1, 2].sort();", "JSON.stringify({a: [1, {b: 2}]});",
                   "JSON.parse('[1, {\"a\": 2}]');", "/a(b)?/.test('ab');", "'abc'.replace(/b/, 'x');", "'a,b'.split(',');", "for (var k in {a: 1}) { }", "for (var v of [1, 2]) { }", "Object.keys({a: 1});", "[1, 2].concat([3]).join();",
                   "(function () { return arguments.length; })(1, 2);", "new Error('m').message;", "String(new TypeError('t'));", "try { throw new RangeError('r'); } catch (e) { e.name; }", "typeof nosuch;", "1 / 0;", "Math.max(1, 2);",
                   "parseInt('12');", "new Uint8Array(2).length;", "var o = {get g() { return 1; }}; o.g;", "Number('12') + Number.MAX_VALUE;", "[] instanceof Array;", "({}).hasOwnProperty('a');", "Array.isArray([]);", "'abc'.indexOf('b');"]


def rebind_programs():
    body = " ".join("try { " + t + " } catch (e) { try { String(e); e instanceof Error; e.name; e.message; } catch (e2) { } }" for t in REBIND_TRIGGERS)
    out = []
    for g in REBIND_GLOBALS:
        for form in ("%s = hostfn;", "var %s = hostfn;", "this.%s = hostfn;"):
            out.append(("global:" + g + ":" + form.split(" ")[0], "try { " + (form % g) + " } catch (e) { }\n" + body))
    for pth in REBIND_PROPS:
        out.append(("prop:" + pth, "try { " + pth + " = hostfn; } catch (e) { }\n" + body))
        base, name = pth.rsplit(".", 1)
        out.append(("defprop:" + pth, "try { Object.defineProperty(" + base + ", '" + name + "', {get: function () { return hostfn; }, configurable: true}); } catch (e) { }\n" + body))
    return out


def w_rebind(case, opts):
    from vf import engine as E
    out = []
    for src in case["progs"]:
        ctx = E.new_context()
        n = [0]

        def hostfn(*args):
            n[0] += 1
            return 7
        ctx.set("hostfn", hostfn)
        ctx.set("HOSTCOUNT", lambda: n[0])
        san = Sanitizer(E, ctx, [hostfn])
        r = E.run_js(src + "\nHOSTCOUNT();", {"_vm_mons": [san.mon], "max_steps": 300000, "log": False}, ctx=ctx)
        out.append({"o": r["out"], "calls": n[0], "bad": san.bad, "err": r.get("err") or r.get("abort")})
    return {"res": out}


NO_INVOKE_FORMS = [
    "typeof hostfn", "'x' in hostfn", "for (var k in hostfn) {}", "Object.keys(hostfn)", "JSON.stringify(hostfn)",
    "JSON.stringify({f: hostfn})", "({}) instanceof Object; hostfn instanceof Object", "Object.create(hostfn)", "hostfn.x",
    "hostfn.x = 1", "delete hostfn.x", "hostfn + ''", "String(hostfn)", "[hostfn].join()", "hostfn == 1", "hostfn ? 1 : 2",
    "var o = {h: hostfn}; o.h", "[hostfn].indexOf(hostfn)", "hostfn.length", "hostfn.name", "hostfn.toString", "!hostfn",
    "Object.getPrototypeOf(hostfn)", "Object.getOwnPropertyDescriptor({h: hostfn}, 'h')", "hostfn.call", "hostfn.bind(null)",
    "[1, 2].map", "var g = hostfn; g", "Object.assign({}, {h: hostfn})", "Object.entries({h: hostfn})",
]


def caught_error_programs():
    """Every way an engine-raised error can reach a script catch clause (or a finally, a callback, a nested evaluator): whatever
    the catch parameter is bound to must be a JavaScript value - stored, logged and returned so that the sanitizer and the
    boundary see it."""
    big_consts = "[" + ", ".join(str(i) for i in range(300)) + "]"
    big_locals = "var " + ", ".join("v%d = %d" % (i, i) for i in range(300)) + ";"
    deep = "(" * 3000 + "1" + ")" * 3000
    triggers = {
        "eval-too-many-constants": "(0, eval)(%s)" % json.dumps(big_consts),
        "Function-too-many-constants": "new Function(%s)" % json.dumps("return " + big_consts),
        "Function-too-many-locals": "new Function(%s)()" % json.dumps(big_locals),
        "eval-too-deep": "(0, eval)(%s)" % json.dumps(deep),
        "eval-jump-too-far": "(0, eval)(%s)" % json.dumps("var s = 0; if (s) { " + "s += 1; " * 7000 + "}"),
        "eval-syntax-error": "(0, eval)('(')", "Function-syntax-error": "new Function('(')", "eval-break-outside-loop": "(0, eval)('break;')",
        "RegExp-syntax-error": "new RegExp('(')", "RegExp-too-large": "new RegExp('a{99999999}')", "regex-stack": "/(a|b)*c/.test(new Array(5000).join('ab'))",
        "JSON.parse-error": "JSON.parse('{')", "JSON.stringify-cycle": "var cy = {}; cy.c = cy; JSON.stringify(cy)", "null-member": "null.x", "undefined-call": "undefinedFn()",
        "not-callable": "(5)()", "array-length": "new Array(-1)", "repeat-negative": "'x'.repeat(-1)", "toFixed-range": "(1).toFixed(1000)", "reduce-empty": "[].reduce(function(){})",
        "string-too-long": "'abc'.repeat(4294967296)", "array-write-beyond-end": "var aw = [1]; aw[5] = 1", "primitive-write": "(5).p = 1", "new-arrow": "new (() => 1)()",
        "instanceof-non-callable": "({}) instanceof 5", "in-primitive": "'a' in 5", "getter-throws-host-style": "({get g() { return null.x; }}).g", "typed-array-length": "new Int32Array(-1)",
        "toString-returns-object": "'' + {toString: function () { return {}; }, valueOf: function () { return {}; }}", "native-depth": "var nd = {get p() { return [1].map(function () { return nd.p; }); }}; nd.p",
        "throw-from-host-callable": "hostfn.call(null, 1); null.y",
    }
    wrappers = {
        "try-catch": "var caught = 'nothing', box = {}, list = []; try { %s; } catch (e) { caught = e; box.err = e; list.push(e); } log(caught, box, list, typeof caught, String(caught).slice(0, 30)); [caught, box, list]",
        "in-callback": "var caught = 'nothing'; try { [1].forEach(function () { %s; }); } catch (e) { caught = e; } log(caught, typeof caught); caught",
        "inner-function-finally": "var caught = 'nothing', fin = 0; function inner() { try { %s; } finally { fin++; } } try { inner(); } catch (e) { caught = e; } log(caught, fin); [caught, fin]",
        "catch-in-nested-eval": "var caught = (0, eval)(%s); log(caught); caught",
        "rethrow-chain": "var caught = 'nothing'; try { try { %s; } catch (e1) { throw e1; } } catch (e2) { caught = e2; } log(caught, caught === undefined); caught",
    }
    out = []
    for tn, t in sorted(triggers.items()):
        for wn, w in sorted(wrappers.items()):
            if wn == "catch-in-nested-eval":
                src = w % json.dumps("var c = 'nothing'; try { " + t + "; } catch (e) { c = e; } c")
            else:
                src = w % t
            out.append("// caught-error:%s:%s\n%s" % (tn, wn, src))
    return out


def native_value_programs():
    """Every value a native hands to script code or to a host function: callback arguments of every callback-taking built-in,
    elements of result arrays (non-participating capture groups, missing elements), accessor/setter arguments, call/apply
    argument lists.  Each program logs them (the log encoder marks anything that is not a JavaScript value)."""
    pre = "function all() { var a = []; for (var i = 0; i < arguments.length; i++) { a.push(arguments[i]); } log(a, this === undefined ? 'U' : typeof this); return 'r'; }\n"
    rx = ["/(x)?b/", "/(x)?(b)|(c)/", "/(?:(a)|(b))+/", "/(?=(z))?b/", "/(a)|b/g", "/(x)*b/g", "/((x))?b/y"]
    progs = []
    for r in rx:
        for subj in ("'ab'", "'abab'", "'b'"):
            progs.append("%s.replace(%s, all); %s.replace(%s, hostfn); log(%s.split(%s)); log(%s.exec(%s)); log(%s.match(%s)); log(%s.search(%s)); %s" % (
                subj, r, subj, r, subj, r, r, subj, subj, r, subj, r, "log(%s.replaceAll(%s, all));" % (subj, r) if "g" in r.split("/")[-1] else ""))
    for m in ("forEach", "map", "filter", "some", "every", "find", "findIndex"):
        progs.append("[1, undefined, null].%s(all); [1, 2].%s(hostfn); [1].%s(all, null); [1].%s(all, undefined);" % (m, m, m, m))
    progs += ["[1, 2, 3].reduce(all); [1, 2].reduce(all, undefined); [1, 2].reduceRight(hostfn, null); [3, 1, 2].sort(all); [2, 1].sort(hostfn);",
              "all.call(undefined, undefined, null); all.apply(null, [undefined, null, 1]); all.apply(undefined); all.bind(null, undefined)(null); hostfn.call(null, undefined); hostfn.apply(null, [null, undefined]);",
              "var o = {set p(v) { log(['set', v]); }, get q() { log(['get', arguments.length]); return undefined; }}; o.p = undefined; o.p = null; o.q; log(Object.getOwnPropertyDescriptor(o, 'zz'), Object.getOwnPropertyDescriptor({d: undefined}, 'd'));",
              "log('abc'.charAt(9), 'abc'[9], [][0], ({}).x, [1][5], 'a'.codePointAt, Math.max(), parseInt('x'), Number(undefined), [].pop(), [].shift(), new Int8Array(1)[5], (function () {})(), void 0);",
              "log(JSON.parse('[null, {\"a\": null}]'), Object.entries({a: undefined, b: null}), Object.values({a: undefined}), [undefined, null].concat([undefined]), [undefined].slice(), Array(2), new Array(2).fill ? 1 : 0);",
              "log([1, 2].indexOf(5), [].find(all), [].findIndex(all), 'x'.match(/y/), /y/.exec('x'), 'abc'.replace('b', all), 'abc'.replace('b', hostfn), ({valueOf: all}) + 1, String({toString: all}));",
              "try { null.x; } catch (e) { log(e.lineNumber === undefined, e.stack === undefined, typeof e.message); } log((function () { return arguments[3]; })(1), (function (a, b) { return b; })(1));",
              "var it = []; for (var k in {a: undefined, b: null}) { it.push(k); } for (var v of [undefined, null, , 1].slice(0, 2)) { it.push(v); } log(it);".replace("[undefined, null, , 1]", "[undefined, null, 1]")]
    return ["// native-values\n" + pre + p for p in progs]


def descriptor_value_programs():
    """Everything the reflection built-ins hand out about properties of every shape: each field is a value the script holds."""
    shapes = {"data": "{k: 1}", "getter-only": "{get k() { return 1; }}", "setter-only": "{set k(v) { }}", "both": "{get k() { return 1; }, set k(v) { }}",
              "defined-getter": "Object.defineProperty({}, 'k', {get: function () { return 1; }, enumerable: true, configurable: true})",
              "defined-setter": "Object.defineProperty({}, 'k', {set: function (v) { }, enumerable: true, configurable: true})", "defined-value": "Object.defineProperty({}, 'k', {value: undefined})",
              "inherited": "Object.create({get k() { return 1; }})", "array-index": "[5]", "array-length": "[5]", "function-name": "(function f() { })", "string-index": "'abc'", "missing": "{}"}
    progs = []
    for sn, sh in shapes.items():
        key = {"array-index": "0", "array-length": "'length'", "function-name": "'name'", "string-index": "1"}.get(sn, "'k'")
        progs.append("var o = %s; var d = Object.getOwnPropertyDescriptor(o, %s); var seen = []; if (d) { for (var f in d) { seen.push(f, d[f]); hostfn(d[f]); } log(d.get, d.set, d.value, d.writable, d.enumerable, d.configurable, d.get === undefined, d.set === undefined, String(d.set), typeof d.get); } "
                     "log(seen, d === undefined, Object.keys(o), Object.getOwnPropertyNames ? Object.getOwnPropertyNames(o) : 0, Object.getPrototypeOf(o) === null); hostfn(d, seen);" % (sh, key))
    return progs


def operator_value_programs():
    """The result of every operator on every pair of a value grid is logged under the sanitizer: an arithmetic corner that the host
    answers with one of its own types (complex, Decimal, Fraction, NotImplemented, a big int that is not a double ...) is a host value in
    script hands like any other."""
    vals = ["-8", "-4", "-2.5", "-1", "-0.5", "-0", "0", "0.5", "1/3", "1", "2", "3.7", "1e308", "-1e308", "5e-324", "2147483648", "9007199254740993", "Infinity", "-Infinity", "NaN",
            "'3'", "'-2.5'", "''", "'x'", "true", "null", "undefined", "[]", "[2]", "({})"]
    bins = ["+", "-", "*", "/", "%", "**", "&", "|", "^", "<<", ">>", ">>>", "<", "<=", "==", "===", "&&", "||"]
    uns = ["-", "+", "~", "!", "typeof ", "void "]
    exprs = []
    for op in bins:
        for a in vals:
            for b in vals:
                exprs.append("(%s) %s (%s)" % (a, op, b))
    for op in uns:
        for a in vals:
            exprs.append("%s(%s)" % (op, a))
    for a in vals:
        for b in vals[:12]:
            exprs.append("Math.pow(%s, %s)" % (a, b))
            exprs.append("(function () { var x = %s; x **= %s; return x; })()" % (a, b))
            exprs.append("(function () { var x = %s; x %%= %s; return x; })()" % (a, b))
        for f in ("Math.sqrt", "Math.cbrt", "Math.log", "Math.acos", "Math.round", "Math.fround", "Math.sign", "Math.trunc", "Math.atan2.bind(null, 1)", "Math.hypot.bind(null, 3)", "Number", "parseFloat", "parseInt",
                  "isNaN", "Math.max.bind(null, 0)", "Math.min", "Math.abs", "Math.exp", "Math.clz32", "Math.imul.bind(null, 3)"):
            exprs.append("%s(%s)" % (f, a))
    progs = []
    for i in range(0, len(exprs), 250):
        chunk = exprs[i:i + 250]
        progs.append("// operator-values %d\nvar R = [];\n" % i + "\n".join("try { R.push(%s); } catch (e) { R.push('T:' + e.name); }" % e for e in chunk) + "\nlog(R); R.length")
    return progs


def gen_invocation_prog(rng):
    """Program whose explicit hostfn call sites each pass a unique site id after bumping a script counter."""
    n = rng.randint(1, 6)
    stmts = ["var executed = [];"]
    sid = 0
    for _ in range(n):
        sid += 1
        kind = rng.choice(["plain", "cond-true", "cond-false", "loop", "callback", "method", "call", "apply", "noinvoke"])
        site = "(executed.push(%d), hostfn(%d, 'a', [1], {k: 2}, undefined, null))" % (sid, sid)
        if kind == "plain":
            stmts.append(site + ";")
        elif kind == "cond-true":
            stmts.append("if (1) { " + site + "; }")
        elif kind == "cond-false":
            stmts.append("if (0) { " + site + "; }")
        elif kind == "loop":
            stmts.append("for (var i%d = 0; i%d < 2; i%d++) { %s; }" % (sid, sid, sid, site))
        elif kind == "callback":
            stmts.append("[1].forEach(function () { " + site + "; });")
        elif kind == "method":
            stmts.append("var hm%d = {h: hostfn}; executed.push(%d); hm%d.h(%d);" % (sid, sid, sid, sid))
        elif kind == "call":
            stmts.append("executed.push(%d); hostfn.call(null, %d);" % (sid, sid))
        elif kind == "apply":
            stmts.append("executed.push(%d); hostfn.apply(null, [%d]);" % (sid, sid))
        else:
            stmts.append("try { " + rng.choice(NO_INVOKE_FORMS) + "; } catch (ni%d) { }" % sid)
    stmts.append("executed")
    return " ".join(stmts)


def main(ctx):
    rng = random.Random(ctx.seed)
    ep = engine_pool()
    np_ = node_pool() if have_node() else None
    try:
        vocab = ep.map({"mod": "checks.C03", "fn": "w_vocab"}, [{}], batch=1, timeout=120)[0]["names"]
        fresh = ["zq%dx%d" % (ctx.seed % 97, i) for i in range(6)]
        names = list(vocab)
        light_forms = None
        if ctx.quick:
            # quick: every name; names without a leading underscore go through the core forms only
            light_forms = {"read", "call", "write-read", "in", "as-prototype", "keys"}
        # ES-meaningful names per receiver, from node
        meaningful = {}
        if np_:
            q = []
            for rk, R in RECEIVERS.items():
                if rk == "hostfn":
                    R = "(function hostfn() {})"
                q.append({"src": "var R = %s; var out = []; var ns = %s; for (var i = 0; i < ns.length; i++) { var m = false; try { m = (ns[i] in Object(R)); } catch (e) {} if (m) out.push(ns[i]); } out.join(',')" % (R, json.dumps(vocab)),
                          "sloppy": True})
            nres = np_.map({}, q, batch=4, timeout=120)
            for rk, r in zip(RECEIVERS, nres):
                s = r["ret"][1] if r and r.get("ret") and r["ret"][0] == "s" else ""
                meaningful[rk] = set(s.split(",")) if s else set()
        else:
            ctx.inconclusive_because("reference_unavailable: cannot compute the ECMAScript-meaningful names; fresh-name oracle skipped")
        jobs = []   # (rk, form, name, src)
        for rk, R in RECEIVERS.items():
            skip = meaningful.get(rk, set()) | ENGINE_DOCUMENTED
            for fk, tmpl in FORMS.items():
                if fk == "literal-key" and rk != "object":
                    continue
                for nme in fresh + [n for n in names if n not in skip]:
                    if light_forms is not None and not nme.startswith("_") and nme not in fresh and fk not in light_forms:
                        continue
                    jobs.append((rk, fk, nme, tmpl % {"R": R, "N": json.dumps(nme)}))
        batches = [jobs[i:i + 400] for i in range(0, len(jobs), 400)] if np_ else []
        pres = ep.map({"mod": "checks.C03", "fn": "w_probe"}, [{"progs": [j[3] for j in b]} for b in batches], batch=1, timeout=600)
        # random programs + closure-heavy programs with the sanitizer on
        progs = [progen.random_program(rng) for _ in range(300 if ctx.quick else 6000)] + \
                [progen.closure_heavy(rng) for _ in range(100 if ctx.quick else 2000)]
        progs += caught_error_programs() + native_value_programs() + operator_value_programs() + descriptor_value_programs()
        # control-flow corner programs whose operand-stack discipline is the hazard (what a stray slot holds is an interpreter-internal
        # object): jumps out of finally over pending completions, in callees whose call is an operand inside for-in/for-of/switch
        from vf import skel
        for oi, (kind, a, b, c, body) in enumerate(skel.override_bodies()):
            g = "function keep(v) { return v; }\nfunction g() { for (var I = 0; I < 2; I++) { " + body + " } return 'N'; }\n"
            for cn in ("forin-array", "forof-sum", "switch-arg", "array", "arg1"):
                if ctx.quick and (oi + len(cn)) % 3 and cn != "forin-array":
                    continue
                progs.append(skel.PRELUDE + skel.CTX_PRELUDE + g + "var held = []; function log(a, b) { held.push(b); }\ntry { " + skel.CONTEXTS[cn] + " } catch (E) { }\nheld;")
        for si, (ident, src) in enumerate(skel.enumerate_skeletons(depth2=True, contexts=["forin-array", "array"])):
            if si % (7 if ctx.quick else 1) == ctx.seed % (7 if ctx.quick else 1):
                progs.append(src)
        # names that DO mean something on a receiver (ECMAScript's, and the engine's documented lineNumber/columnNumber/stack) are
        # outside the fresh-name oracle, but what they evaluate to is a value a script holds: under the sanitizer like everything else
        for rk, R in RECEIVERS.items():
            for nme in sorted(meaningful.get(rk, set()) | ENGINE_DOCUMENTED):
                for fk in ("read", "call", "write-read", "delete"):
                    progs.append(FORMS[fk] % {"R": R, "N": json.dumps(nme)})
        rres = ep.map({"mod": "checks.C03", "fn": "w_probe"}, [{"progs": progs[i:i + 50], "log": True} for i in range(0, len(progs), 50)],
                      batch=1, timeout=600)
        hitems = [(vi, rt) for vi in range(len(HOST_VALUES)) for rt in HOST_ROUTES]
        hres = ep.map({"mod": "checks.C03", "fn": "w_hostvalues"}, [{"items": hitems[i:i + 40]} for i in range(0, len(hitems), 40)], batch=1, timeout=600)
        rprogs = rebind_programs()
        rbres = ep.map({"mod": "checks.C03", "fn": "w_rebind"}, [{"progs": [p[1] for p in rprogs[i:i + 20]]} for i in range(0, len(rprogs), 20)], batch=1, timeout=600)
        NODE_HOST = "var HC_ = 0; var hostfn = function () { HC_++; return 7; }; var HOSTCOUNT = function () { return HC_; };\n"
        rbref = np_.map({}, [{"kind": "exprs", "exprs": [NODE_HOST + p[1] + "\nHC_;"]} for p in rprogs], batch=10, timeout=120) if np_ else [None] * len(rprogs)
        # invocation log programs
        fixed = random.Random(31337)
        iprogs = [{"src": gen_invocation_prog(fixed if i % 2 else rng)} for i in range(400 if ctx.quick else 6000)]
        iprogs += [{"src": "try { " + f + "; } catch (ni) { } []"} for f in NO_INVOKE_FORMS]
        ires = ep.map({"mod": "checks.C03", "fn": "w_invocations"}, [{"progs": iprogs[i:i + 100]} for i in range(0, len(iprogs), 100)],
                      batch=1, timeout=600)
    finally:
        ep.close()
        if np_:
            np_.close()
    # ---- judge probes: fresh-name oracle + sanitizer + boundary
    checked = 0
    closures = 0
    table = {}
    for b, r in zip(batches, pres):
        if not r or "res" not in r:
            ctx.violation(("probe-worker-failed",), {"detail": r, "first": b[0][:3]})
            continue
        checked += r["totals"]["checked"]
        closures += r["totals"]["native_closures"]
        for (rk, fk, nme, src), e in zip(b, r["res"]):
            ctx.count()
            table[(rk, fk, nme)] = e
            if e.get("bad"):
                ctx.violation(("sanitizer", e["bad"][0][0], rk, fk), {"case": src, "bad": e["bad"], "monitor": "operand-stack type sanitizer"})
            if "HOST" in json.dumps(e.get("ret", "")) or "HOST" in json.dumps(e.get("py", "")):
                ctx.violation(("host-value-returned", rk, fk), {"case": src, "observed": e})
            if e.get("host_calls"):
                ctx.violation(("hostfn-invoked-by-property-access", rk, fk, nme), {"case": src, "calls": e["host_calls"]})
            if e.get("site"):
                key = "site:%s@%s::%s::%s" % (e["err"][0], e["site"][0], e["site"][1], e["site"][2])
                if not ctx.known_site(key[5:]):
                    ctx.violation(("host-exception", e["err"][0], rk, fk), {"case": src, "observed": e})
    base = fresh[0]
    for (rk, fk, nme), e in table.items():
        if nme in fresh:
            continue
        ref = table.get((rk, fk, base))
        if ref is None:
            continue
        a = rename(json.dumps({k: v for k, v in e.items() if k != "bad"}), nme)
        b2 = rename(json.dumps({k: v for k, v in ref.items() if k != "bad"}), base)
        ctx.nontrivial((rk, fk))
        if a != b2:
            cid = h(["fresh", rk, fk, nme])
            if ctx.known_cell(cid, h(a, 10)):
                continue
            if getattr(ctx, "record_path", None):
                with open(ctx.record_path, "a") as rf:
                    rf.write(json.dumps({"cid": cid, "obs": h(a, 10), "rk": rk, "fk": fk, "name": nme}) + "\n")
            ctx.violation(("name-not-like-fresh", rk, fk, nme),
                          {"case": FORMS[fk] % {"R": RECEIVERS[rk], "N": json.dumps(nme)}, "with_host_name": a[:400],
                           "with_fresh_name": b2[:400], "monitor": "fresh-name metamorphic oracle"})
    # fresh names among themselves must agree too (sanity of the oracle)
    for rk in RECEIVERS:
        for fk in FORMS:
            vals = set()
            for f in fresh:
                e = table.get((rk, fk, f))
                if e is not None:
                    vals.add(rename(json.dumps({k: v for k, v in e.items() if k != "bad"}), f))
            if len(vals) > 1:
                ctx.violation(("fresh-names-disagree", rk, fk), {"values": list(vals)[:3]})
    # ---- random programs under the sanitizer
    pi = 0
    for r in rres:
        if not r or "res" not in r:
            ctx.violation(("program-worker-failed",), {"detail": r})
            continue
        checked += r["totals"]["checked"]
        closures += r["totals"]["native_closures"]
        for e in r["res"]:
            ctx.count()
            if e.get("bad"):
                ctx.violation(("sanitizer", e["bad"][0][0], "program"), {"case": progs[pi], "bad": e["bad"]})
            if "HOST" in json.dumps([e.get("ret"), e.get("py"), e.get("log")]):
                ctx.violation(("host-value-observable", "program"), {"case": progs[pi], "observed": str(e)[:500]})
            if e.get("o") == "hosterr":
                ctx.violation(("host-exception", str((e.get("err") or [None])[0]), "program"), {"case": progs[pi], "observed": str(e)[:500]})
            ctx.nontrivial(("prog", h(progs[pi])))
            pi += 1
    # ---- values entering from the embedder
    hi = 0
    host_judged = 0
    for r in hres:
        if not r or "res" not in r:
            ctx.violation(("host-values-worker-failed",), {"detail": r})
            hi += 40
            continue
        for e in r["res"]:
            vi, rt = hitems[hi]
            hi += 1
            ctx.count()
            if e["o"] == "skip":
                continue
            host_judged += 1
            checked += e.get("checked", 0)
            desc = {"host_value": HOST_VALUES[vi], "route": rt, "script": HOST_ROUTES[rt] + "\n" + HOST_USE}
            if e.get("bad"):
                ctx.violation(("sanitizer", e["bad"][0][0].split(":")[0], "host-value", rt), {"case": desc, "bad": e["bad"]})
            elif "HOST" in json.dumps([e.get("ret"), e.get("log")]):
                ctx.violation(("host-value-observable", "host-value", rt), {"case": desc, "observed": str(e)[:600]})
            elif e["o"] != "ok" and not (e["o"] == "jserr" and (e.get("err") or {}).get("kind") != "host"):
                ctx.violation(("host-exception", "host-value", rt), {"case": desc, "observed": str(e)[:600]})
            if e["o"] == "ok":
                ctx.nontrivial(("hostval", vi, rt))
    ctx.cov["host_value_route_cells_judged"] = host_judged
    # ---- exposed function stored where the engine looks things up for itself
    flat = []
    for r in rbres:
        flat += (r["res"] if r and "res" in r else [None] * 20)
    rebind_judged = 0
    for (rid, src), e, nref in zip(rprogs, flat, rbref):
        ctx.count()
        if e is None:
            ctx.violation(("rebind-worker-failed",), {"case": src[:300]})
            continue
        ref_calls = None
        try:
            ref_calls = int(dnum(nref["res"][0]["ret"]))
        except Exception:   # noqa
            pass
        if e.get("bad"):
            ctx.violation(("sanitizer", e["bad"][0][0].split(":")[0], "rebind", rid.split(":")[0]), {"case": src[:1500], "bad": e["bad"]})
        if e["o"] == "hosterr" or (isinstance(e.get("err"), dict) and e["err"].get("kind") == "host"):
            ctx.violation(("host-exception", "rebind", rid.split(":")[0]), {"case": src[:1500], "observed": str(e)[:400]})
        if ref_calls is None:
            continue
        rebind_judged += 1
        if e["calls"] > ref_calls:
            ctx.violation(("hostfn-invoked-without-a-call", rid.split(":")[0], rid.split(":")[1]),
                          {"case": src[:2500], "where_stored": rid, "engine_invocations": e["calls"], "reference_invocations_of_a_script_function_stored_there": ref_calls,
                           "monitor": "invocation counter in the exposed function vs node running the same program with a script function"})
        else:
            ctx.nontrivial(("rebind", rid))
    ctx.cov["rebind_programs_judged"] = rebind_judged
    # ---- invocation log checker
    ii = 0
    inv_total = 0
    for r in ires:
        if not r or "res" not in r:
            ctx.violation(("invocation-worker-failed",), {"detail": r})
            continue
        for e in r["res"]:
            ctx.count()
            src = iprogs[ii]["src"]
            ii += 1
            if e["o"] != "ok":
                ctx.violation(("invocation-program-failed",), {"case": src, "err": e.get("err")})
                continue
            executed = [int(x[1]) for x in e["py"][1]] if e["py"][0] == "l" else []
            ids = []
            bad_args = None
            for call in e["inv"]:
                inv_total += 1
                ids.append(int(dnum(call[0])) if call and call[0][0] == "d" else None)
                for a in call:
                    if a[0] == "HOST":
                        bad_args = a
            if ids != executed:
                ctx.violation(("invocations!=executed-call-sites",), {"case": src, "executed_sites": executed, "invocations": ids,
                                                                      "monitor": "invocation log checker"})
            if bad_args:
                ctx.violation(("host-arg",), {"case": src, "arg": bad_args})
            if e.get("bad"):
                ctx.violation(("sanitizer", e["bad"][0][0], "invocation"), {"case": src, "bad": e["bad"]})
            if ids:
                ctx.nontrivial(("inv", h(src)))
    if checked == 0:
        ctx.inconclusive_because("operand-stack sanitizer never ran (hook not firing)")
    ctx.cov["rule"] = ("receiver kinds x access forms x names (host vocabulary introspected from the live engine + fresh names), each "
                       "on a fresh context with the operand-stack sanitizer on; random and closure-heavy programs under the "
                       "sanitizer; programs with id-tagged exposed-function call sites; non-trivial = distinct (receiver, form) "
                       "cells compared with a fresh name, programs sanitised, programs with >= 1 invocation")
    ctx.cov["receivers"] = len(RECEIVERS)
    ctx.cov["forms"] = list(FORMS)
    ctx.cov["host_vocabulary_size"] = len(vocab)
    ctx.cov["names_used_this_run"] = len(names)
    ctx.cov["observations"] = len(table)
    ctx.cov["sanitizer_stack_checks"] = checked
    ctx.cov["native_closures_whitelisted"] = closures
    ctx.cov["host_invocations_checked"] = inv_total
    ctx.sample(jobs[7][3] if jobs else "")
    ctx.sample(jobs[len(jobs) // 2][3] if jobs else "")
    ctx.sample(iprogs[0]["src"])
    ctx.assumptions += ["ECMAScript-meaningful names per receiver are computed by node (N in Object(R)) and excluded from the fresh-name oracle"]


def rename(text, name):
    """Replace whole-identifier occurrences of name (not substrings of longer identifiers)."""
    import re
    return re.sub(r"(?<![A-Za-z0-9_$])" + re.escape(name) + r"(?![A-Za-z0-9_$])", "@N@", text)


def dnum(x):
    import struct
    return struct.unpack(">d", bytes.fromhex(x[1]))[0]
