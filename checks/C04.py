"""C04 — eval fails only with the JSError family: positioned JSSyntaxError or a runtime JSError.

Deciding monitors (all on the real Context.eval, every case in a fresh Context, under the virtual clock with a
step budget, a memory limit and an address-space rlimit so that a runaway allocation becomes an observable
MemoryError instead of a dead machine):

* boundary monitor: the exception type seen by the caller of Context.eval; anything that is not a JSError is a
  violation keyed by its *escape site* (exception type + innermost microjs frame + source line, no line number);
* front-end watchdog: a case that does not come back within the real-time watchdog is a hang (the lexer/parser
  never tick the virtual clock, so this is the only way to see them spin);
* position monitors on every JSSyntaxError: (a) line/column inside the source text or at its end, (b) trivia
  metamorphic oracle - the same token sequence with other inter-token trivia (leading newlines/spaces/comments,
  every newline doubled / indented / turned into CRLF) must report the same token, i.e. the position moves exactly
  as the text moved, (c) for single-fault mutants of valid programs the position is not before the statement that
  precedes the fault, (d) source that node refuses to compile and that the engine refuses before executing anything
  must be refused with a *positioned JSSyntaxError* (not a bare JSError, not line 0).

Workloads: character soup, token soup over the engine's own token vocabulary, truncations / deletions /
duplications / swaps / replacements / splices of corpus programs (repo tests/*.js + generated programs + a
construct list), every prefix of small programs and sampled prefixes of big ones, nesting ladders up to depth 30;
and the API surface discovered by introspection of the live global graph and of the string constants of vm.py /
context.py / values.py (so a new built-in is covered when it is added) x receiver kinds x an adversarial argument
grid (arity 0-1 exhaustive, 2 pairs, 3 sampled).
"""
import ast
import json
import os
import random
import re

from vf.common import REPO, h
from vf.runner import engine_pool, have_node, node_pool

# ------------------------------------------------------------------------------------------------ worker side
_RLIM = [False]


def _limit_as():
    if not _RLIM[0]:
        _RLIM[0] = True
        try:
            import resource
            resource.setrlimit(resource.RLIMIT_AS, (3 << 30, 3 << 30))
        except Exception:
            pass


def w_eval(case, opts):
    """Run one source through Context.eval; compact record."""
    from vf import engine
    _limit_as()
    o = {"tl": opts.get("tl", 40000), "ml": opts.get("ml", 30_000_000), "max_steps": opts.get("max_steps", 120000), "log": case.get("fam") == "generated-history"}
    if str(case.get("ident", [""])[0]).startswith("monster"):
        # building the structure alone takes tens of thousands of steps: the operation on it must still get its turn
        o["tl"], o["max_steps"] = 2_000_000, 2_500_000
    rec = engine.run_js(case["src"], o, ctx=engine.new_context(o["tl"], o["ml"], quiet=False))     # the real console.log runs too
    out = {"o": rec["out"], "steps": rec.get("vm_steps", 0)}
    err = rec.get("err")
    if err:
        out["cls"] = err.get("cls")
        out["name"] = err.get("name")
        out["msg"] = (err.get("msg") or "")[:160]
        if err.get("kind") == "host":
            out["site"] = err.get("site")
        if "line" in err:
            out["line"], out["col"] = err["line"], err["col"]
    return out


def w_surface(case, opts):
    """Discover the callable API surface of the live engine: per receiver expression the names with typeof function."""
    import microjs
    from vf import engine
    pkg = os.path.dirname(microjs.__file__)
    names = set()
    for fn in ("vm.py", "context.py", "values.py"):
        tree = ast.parse(open(os.path.join(pkg, fn)).read())
        for node in ast.walk(tree):
            if isinstance(node, ast.Constant) and isinstance(node.value, str) and re.fullmatch(r"[A-Za-z_$][A-Za-z0-9_$]{0,30}", node.value):
                names.add(node.value)
    ctx = engine.new_context()
    globs = sorted(k for k in ctx._globals.keys() if re.fullmatch(r"[A-Za-z_$][A-Za-z0-9_$]*", k))
    for g in globs:
        v = ctx._globals[g]
        for attr in ("_properties",):
            d = getattr(v, attr, None)
            if isinstance(d, dict):
                names.update(k for k in d if isinstance(k, str) and re.fullmatch(r"[A-Za-z_$][A-Za-z0-9_$]*", k))
        proto = v.get("prototype") if hasattr(v, "get") and hasattr(v, "_properties") else None
        d = getattr(proto, "_properties", None)
        if isinstance(d, dict):
            names.update(k for k in d if isinstance(k, str) and re.fullmatch(r"[A-Za-z_$][A-Za-z0-9_$]*", k))
    names = sorted(names)
    out = {"globals": [], "methods": {}, "candidates": len(names)}
    for g in globs:
        r = engine.run_js("typeof %s" % g, {"log": False})
        out["globals"].append([g, (r.get("py") or [None, None])[1]])
    for kind, expr in case["receivers"]:
        src = "var r = %s; var N = %s; var o = []; for (var i = 0; i < N.length; i++) { try { if (typeof r[N[i]] === 'function') o.push(N[i]); } catch (e) {} } o" % (expr, json.dumps(names))
        r = engine.run_js(src, {"log": False, "max_steps": 2_000_000})
        py = r.get("py")
        out["methods"][kind] = [x[1] for x in py[1]] if isinstance(py, list) and py and py[0] == "l" else []
    return out


# ------------------------------------------------------------------------------------------------ generators
SOUP = (list("abcxyz_$01289") + list(" \t\n\r;,.(){}[]<>=!+-*/%&|^~?:'\"`\\#@") + ["\0", " ", "﻿", " ", " ", "é", "ℯ", "²", "٣", "𝒳", "😀", "\ud800", "\udc00",
        "‍", "́", "//", "/*", "*/", "=>", "...", "0x", "1e", ".5", "\\u", "\\u{", "\\x", "${", "<!--", "-->", "**", ">>>", "?.", "??"])


def token_vocab():
    """Keywords and punctuators from the engine's own token tables + literal/identifier samples."""
    import sys
    sys.path.insert(0, os.path.join(REPO, "src"))
    try:
        from microjs import tokens as T
        from microjs import lexer as L
    finally:
        sys.path.pop(0)
    vocab = set()
    for mod in (T, L):
        for name in dir(mod):
            if name.startswith("__"):
                continue
            v = getattr(mod, name)
            if isinstance(v, dict):
                for k in v:
                    if isinstance(k, str) and 0 < len(k) <= 12 and not k.isspace():
                        vocab.add(k)
    vocab |= {"(", ")", "{", "}", "[", "]", ";", ",", ".", "=", "=>", "+", "-", "*", "/", "%", "**", "++", "--", "<", ">", "<=", ">=", "==", "===", "!=", "!==", "&&", "||", "!", "~", "&", "|", "^",
              "<<", ">>", ">>>", "?", ":", "+=", "-=", "*=", "/=", "%=", "&=", "|=", "^=", "<<=", ">>=", ">>>=", "**=", "...", "`"}
    vocab |= {"x", "y", "f", "arguments", "this", "undefined", "NaN", "0", "1", "1.5", ".5", "5.", "0x1F", "1e3", "'s'", '"d"', "/r/g", "/[/]/", "`t`", "null", "true", "get", "set", "of", "let",
              "async", "await", "yield", "static", "eval", "\n", "// c\n", "/* c */", "label:", "0b1", "0o7", "1n", "#p", "@"}
    return sorted(vocab)


CONSTRUCTS = [
    "var a = 1, b = 'two', c;", "function f(a, b) { return a + b; }", "var g = function inner(n) { return n <= 0 ? 0 : inner(n - 1); };", "var h = (a, b) => a * b;", "var k = x => { return x; };",
    "if (a) { b = 1; } else if (c) { b = 2; } else b = 3;", "for (var i = 0; i < 3; i++) { if (i === 1) continue; if (i === 2) break; }", "for (var p in {x: 1}) { a = p; }",
    "for (var v of [1, 2]) { a = v; }", "while (a < 3) a++;", "do { a--; } while (a > 0);", "outer: for (;;) { for (;;) { break outer; } }",
    "switch (a) { case 1: b = 1; break; case 2: default: b = 2; }", "try { throw new Error('e'); } catch (e) { a = e.message; } finally { b = 0; }", "try { a = 1; } finally { b = 2; }",
    "var o = {a: 1, 'b c': 2, 3: 4, [a + 'k']: 5, get g() { return 1; }, set g(v) {}, m() { return this; }, a};", "var arr = [1, , 3].length;", "var arr2 = [1, [2, [3]], {x: [4]}];",
    "a = b ? c : a ? b : c;", "a = (b, c);", "a = typeof b === 'undefined' || void 0 === c && !a;", "a = -b + +c - ~a * b / 2 % 3 ** 2;", "a = b << 1 | c >> 2 & a >>> 3 ^ 4;", "a += 1; a -= 1; a *= 2; a /= 2; a %= 2; a **= 2; a <<= 1; a >>= 1; a >>>= 1; a &= 1; a |= 1; a ^= 1;",
    "a = o.a.b; a = o['x'][0]; a = f(1)(2); a = new Date; a = new f(1, 2); a = new o.m();", "a = 'str\\n\\t\\x41\\u0041\\u{1F600}\\'\\\"\\\\';", "a = /re[/\\]]+(?:x|y)*?$/gi.test('s');", "a = 0x1F + 0b11 + 0o17 + 1e3 + 1.5e-3 + .5 + 5.;",
    "a = b in o; a = o instanceof Object; delete o.a; a = b++ + --c;", "a = function () { return arguments.length; }(1, 2);", "(function () { 'use strict'; return this; })();", "a = [1, 2, 3].map(function (x) { return x * 2; }).filter(x => x > 2);",
    "throw a;", "return;", "debugger;", ";", "{ }", "{ a; { b; } }", "a = this;", "a = null; b = undefined; c = true; a = false; a = NaN; a = Infinity;", "var s = `tpl ${a} x`;", "a = b\n++c", "a\n(b)", "a = b /c/ d",
    "/* block\n comment */ a = 1; // line comment", "a = 1 /* inline */ + /* another */ 2;", "a = '\\\nline continuation';", "x: y: z: a = 1;", "if (a) function q() {}", "a = {}.b; a = [].c; a = ''.d; a = 1..e; a = 1.5.f;",
    "var eval2 = (1, eval)('1 + 1');", "var F = new Function('a', 'b', 'return a + b');", "a = async function () {}; a = function* () {};", "class A { constructor() {} m() {} }", "let l1 = 1; const c1 = 2;", "a = b ?? c; a = o?.x;",
    "var {d1, d2} = o; var [e1, e2] = arr2;", "a = [...arr2]; f(...arr2);", "label2: { break label2; }", "a = new.target;", "with (o) { a; }", "a = 1_000;", "a = 08; a = 09.5;", "a = '\\08';", "if (a) ; else ;",
]


def nesting_ladder(depth):
    d = depth
    out = ["(" * d + "1" + ")" * d, "[" * d + "]" * d, "a = " + "{a:" * d + "1" + "}" * d, "{" * d + "}" * d, "!" * d + "a", "- " * d + "a", "typeof " * d + "a", "a" + "[0]" * d, "f" + "(f" * d + ")" * d,
           "a ? " * d + "1" + " : 2" * d, "a = " * d + "1", "a ** " * d + "1", "x => " * d + "1", "function f() { " * d + "}" * d, "if (a) " * d + ";", "for (;;) " * d + "break;", "while (a) { " * d + "}" * d,
           "try { " * d + "} finally {}" * d, "switch (a) { default: " * d + "}" * d, "new " * d + "f", "a = " + "[" * d + "1" + "]" * d + ";", "(" * d + "function () {" * d + "}" * d + ")" * d,
           "a && (" * d + "1" + ")" * d, "a = " + "`${" * d + "1" + "}`" * d, "/" + "(" * d + "a" + ")" * d + "/.test('a')", "/" + "(?:" * d + "a" + ")*" * d + "/.test('a')", "/" + "(?=" * d + "a" + ")" * d + "/.test('a')",
           "/" + "[" * d + "a" + "]" * d + "/.test('a')", "JSON.parse('" + "[" * d + "]" * d + "')", "JSON.parse('" + "{\"a\":" * d + "1" + "}" * d + "')", "new RegExp('" + "(" * d + "a" + ")" * d + "')",
           "(1, eval)('" + "(" * d + "1" + ")" * d + "')", "new Function('return " + "(" * d + "1" + ")" * d + "')()", "a" + ".b" * d, "a" + " + a" * d, "var v" + ", v" * d + ";", "a = [" + "1, " * d + "]", "f(" + "1, " * (d - 1) + "1)",
           "label: " * 1 + "a;", "a = " + "(" * d + "b = 1" + ")" * d, "a = " + "-(" * d + "1" + ")" * d, "a = " + "[" * (d // 2) + "{a: " * (d // 2) + "1" + "}" * (d // 2) + "]" * (d // 2)]
    return out


def scale_cases():
    """Flat (not nested) but long inputs: every token kind at lengths that cross host-library limits."""
    nine = "9" * 5000
    t = {
        "long-int-literal": nine, "long-int-literal-4400": "var x = " + "1" * 4400 + "; x", "long-float-literal": "1." + "1" * 5000, "long-exponent": "1e" + "9" * 400, "long-hex-literal": "0x" + "f" * 5000,
        "long-octal-literal": "0o" + "7" * 5000, "long-binary-literal": "0b" + "1" * 5000, "Number(long)": "Number('" + nine + "')", "parseInt(long)": "parseInt('" + nine + "')",
        "parseInt(long,36)": "parseInt('" + "z" * 5000 + "', 36)", "parseInt(long,7)": "parseInt('" + "6" * 5000 + "', 7)", "parseFloat(long)": "parseFloat('" + nine + "." + nine + "e" + nine + "')",
        "unary-plus-long": "+'" + nine + "'", "long-hex-string": "+'0x" + "f" * 5000 + "'", "compare-long": "'" + nine + "' < 5", "long-key-array": "[1, 2]['" + nine + "']",
        "long-key-array-set": "var a = [1]; a['" + nine + "'] = 1", "long-key-typed": "new Int32Array(2)['" + nine + "']", "long-key-typed-set": "var t = new Int32Array(2); t['" + nine + "'] = 1",
        "long-key-string": "'abc'['" + nine + "']", "huge-index-array": "[1, 2][1e21]", "huge-index-set": "var a = [1]; a[1e21] = 1", "toFixed-100": "(1e21).toFixed(100)", "toString-2": "(1e300).toString(2).length",
        "toPrecision-100": "(123.456).toPrecision(100)", "toExponential-100": "(123.456).toExponential(100)", "long-identifier": "var " + "a" * 20000 + " = 1; " + "a" * 20000, "long-string": "'" + "x" * 200000 + "'.length",
        "many-empty-statements": ";" * 20000 + "1", "long-flat-sum": "1" + "+1" * 3000, "long-array-literal": "[" + "1," * 3000 + "1].length", "long-argument-list": "Math.max(" + "1," * 300 + "1)",
        "long-object-literal": "({" + ",".join("k%d:1" % i for i in range(3000)) + "}).k2999", "long-member-chain": "var o = {}; o" + ".a" * 3000, "JSON.parse-long-number": "JSON.parse('" + nine + "')",
        "JSON.parse-long-fraction": "JSON.parse('0." + nine + "e-" + "9" * 30 + "')", "JSON.parse-flat-long": "JSON.parse('[" + "1," * 20000 + "1]').length", "JSON.stringify-long": "JSON.stringify(new Array(20000)).length",
        "many-vars": "var " + ",".join("v%d=%d" % (i, i) for i in range(3000)) + "; v2999", "many-functions": "".join("function f%d(){}" % i for i in range(3000)) + "1",
        "many-locals": "(function(){ var " + ",".join("v%d=%d" % (i, i) for i in range(300)) + "; return v299 })()", "many-constants": "[" + ",".join("'s%d'" % i for i in range(300)) + "].length",
        "many-params": "(function(" + ",".join("p%d" % i for i in range(300)) + "){ return p299 })()", "many-cases": "switch(1){" + "".join("case %d:" % i for i in range(3000)) + "}",
        "many-labels": "".join("l%d:" % i for i in range(3000)) + "1", "long-comment": "/*" + "x" * 100000 + "*/1", "long-line-comment": "//" + "x" * 100000 + "\n1", "long-regex-literal": "/" + "a" * 50000 + "/.test('a')",
        "many-regex-groups": "/" + "(a)" * 3000 + "/.test('a')", "huge-quantifier": "/a{99999999}/.test('a')", "huger-quantifier": "/a{1,99999999999999999999}/.test('a')", "huge-backreference": "/\\99999999999999999999/.test('a')",
        "huge-class-escape": "/[\\u{110000}-z]/u.test('a')", "regexp-ctor-long": "new RegExp('" + "a?" * 20000 + "').test('a')", "fromCharCode-many": "String.fromCharCode.apply(null, new Array(100000)).length",
        "apply-huge-arraylike": "Math.max.apply(null, {length: 1e9})", "apply-long-array": "Math.max.apply(null, new Array(200000))", "concat-many": "[].concat.apply([], new Array(50000)).length",
        "split-long": "'" + "a," * 50000 + "'.split(',').length", "replace-long": "'" + "ab" * 50000 + "'.replace(/a/g, '$&$&').length", "join-nested": "var a = []; for (var i = 0; i < 30; i++) { a = [a, a]; } 1",
        "string-doubling": "var s = 'x'; for (var i = 0; i < 40; i++) { s += s; } s.length", "array-doubling": "var a = [1]; for (var i = 0; i < 40; i++) { a = a.concat(a); } a.length",
        "long-escape-run": "'" + "\\u0041" * 20000 + "'.length", "long-template": "`" + "x" * 1000 + "`", "neg-zero-key": "var o = {}; o[-0] = 1; o['-0']", "radix-huge": "(255).toString(1e21)",
        "long-unicode-brace": "'\\u{" + "0" * 5000 + "41}'", "long-number-then-ident": "1" * 30 + "abc", "bom-first": "\ufeff1", "nul-inside": "1;\x001", "lone-surrogates": "'\ud800' + '\udc00'",
    }
    # counts swept across the one-byte operand boundary of the instruction format, one count at a time, in every construct that puts
    # a count or an index into an operand; and block sizes swept byte by byte across the two-byte jump boundary
    for n in list(range(250, 262)) + [511, 512, 513, 65535, 65536, 65537]:
        if n < 1000:
            t["boundary-array-literal-%d" % n] = "[" + ",".join(["1"] * n) + "].length"
            t["boundary-call-args-%d" % n] = "(function () { return arguments.length; })(" + ",".join(["1"] * n) + ")"
            t["boundary-new-args-%d" % n] = "new (function () { this.n = arguments.length; })(" + ",".join(["1"] * n) + ").n"
            t["boundary-method-args-%d" % n] = "Math.max(" + ",".join(["1"] * n) + ")"
            t["boundary-constants-%d" % n] = "[" + ",".join("'c%d'" % i for i in range(n)) + "].length"
            t["boundary-number-constants-%d" % n] = "+".join(str(i) for i in range(n))
            t["boundary-names-%d" % n] = "var " + ",".join("g%d=1" % i for i in range(n)) + "; g0"
            t["boundary-locals-%d" % n] = "(function(){ var " + ",".join("v%d=%d" % (i, i) for i in range(n)) + "; return v0 })()"
            t["boundary-params-%d" % n] = "(function(" + ",".join("p%d" % i for i in range(n)) + "){ return p0 })(1)"
            t["boundary-object-props-%d" % n] = "({" + ",".join("k%d:1" % i for i in range(n)) + "}).k0"
            t["boundary-captured-%d" % n] = "(function(){ var " + ",".join("c%d=1" % i for i in range(n)) + "; return function () { return " + "+".join("c%d" % i for i in range(n)) + "; }; })()()"
            t["boundary-in-function-consts-%d" % n] = "(function () { return [" + ",".join("'d%d'" % i for i in range(n)) + "].length; })()"
        else:
            t["boundary-array-literal-%d" % n] = "[" + ",".join(["1"] * n) + "].length"
            # (no 65536-argument call: the reference refuses that with a SyntaxError of its own capacity, which says nothing about the grammar)
    for pad in range(0, 12):
        for n in (6551, 6552, 6553, 6554):
            body = "s += 1; " * n + "0; " * pad
            t["boundary-jump-if-%d-%d" % (n, pad)] = "var s = 0, x = 1; if (x) { " + body + "} else { s = -1; } s"
            if pad % 3 == 0:
                t["boundary-jump-while-%d-%d" % (n, pad)] = "var s = 0, i = 0; while (i < 1) { i++; " + body + "} s"
                t["boundary-jump-try-%d-%d" % (n, pad)] = "var s = 0; try { " + body + "} catch (e) { s = -1; } s"
    return sorted(t.items())


CHUNK = re.compile(r"[A-Za-z_$][A-Za-z0-9_$]*|\d[\w.]*|\s+|'(?:[^'\\\n]|\\.)*'|\"(?:[^\"\\\n]|\\.)*\"|//[^\n]*|/\*.*?\*/|[-+*/%=&|^<>!]+|.", re.S)


def mutate(rng, prog, vocab, other):
    """One fault in a valid program; returns (text, fault offset or None)."""
    chunks = CHUNK.findall(prog)
    if not chunks:
        return "(", 0
    idx = [i for i, c in enumerate(chunks) if not c.isspace()] or [0]
    i = rng.choice(idx)
    off = sum(len(c) for c in chunks[:i])
    k = rng.randrange(10)
    if k == 0:
        return prog[:off + rng.randint(0, len(chunks[i]))], None        # truncation (prefix)
    if k == 1:
        return "".join(chunks[:i] + chunks[i + 1:]), off                 # deletion
    if k == 2:
        return "".join(chunks[:i] + [chunks[i], " ", chunks[i]] + chunks[i + 1:]), off   # duplication
    if k == 3 and len(idx) > 1:
        j = idx[min(len(idx) - 1, idx.index(i) + 1)]
        c2 = chunks[:]
        c2[i], c2[j] = c2[j], c2[i]
        return "".join(c2), off                                          # swap with next token
    if k == 4:
        return "".join(chunks[:i] + [rng.choice(vocab)] + chunks[i + 1:]), off           # replacement
    if k == 5:
        return "".join(chunks[:i] + [rng.choice(vocab), " "] + chunks[i:]), off          # insertion
    if k == 6:
        br = [x for x in idx if chunks[x] in "(){}[]'\";,"]
        if br:
            x = rng.choice(br)
            return "".join(chunks[:x] + chunks[x + 1:]), sum(len(c) for c in chunks[:x])  # bracket / quote / terminator removal
    if k == 7 and other:
        oc = CHUNK.findall(other)
        j = rng.randrange(len(oc))
        return "".join(chunks[:i]) + "".join(oc[j:]), off                # splice of two programs
    if k == 8:
        c = chunks[i]
        if len(c) > 1:
            p = rng.randrange(len(c))
            return "".join(chunks[:i]) + c[:p] + rng.choice(SOUP) + c[p:] + "".join(chunks[i + 1:]), off   # character-level damage inside a token
    return "".join(chunks[:i] + [rng.choice(SOUP)] + chunks[i:]), off


def corpus(rng, fixed):
    """Valid programs: repo tests, generated programs, the construct list."""
    from vf import progen
    progs = []
    root = os.path.join(REPO, "tests")
    for dp, _dn, fns in sorted(os.walk(root)):
        for fn in sorted(fns):
            if fn.endswith(".js"):
                try:
                    progs.append(("file:" + os.path.relpath(os.path.join(dp, fn), root), open(os.path.join(dp, fn), encoding="utf-8").read()))
                except Exception:
                    pass
    for i in range(12):
        try:
            progs.append(("gen:%d" % i, progen.random_program(fixed)))
        except TypeError:
            progs.append(("gen:%d" % i, progen.random_program(fixed)))
    for i, c in enumerate(CONSTRUCTS):
        progs.append(("construct:%d" % i, "var a = 1, b = 2, c = 3, o = {a: {b: 1}, x: [1], m: function () {}}, arr2 = [1, 2]; function f() { return f; }\n" + c))
    return progs


# receivers for the API grid: (kind, expression building a fresh receiver)
RECEIVERS = [
    ("string", "'abc'"), ("empty-string", "''"), ("astral-string", "'a😀b'"), ("number", "5.5"), ("integer", "7"), ("nan", "NaN"), ("boolean", "true"), ("array", "[3, 1, 2]"), ("empty-array", "[]"),
    ("nested-array", "[[1, 2], ['a'], {}]"), ("object", "({a: 1, b: 'x'})"), ("null-proto-object", "Object.create(null)"), ("function", "(function (a, b) { return a; })"), ("arrow", "((a) => a)"),
    ("bound-function", "(function (a) { return this; }).bind({})"), ("regexp", "/a(b)?/g"), ("sticky-regexp", "/x*/y"), ("boundary-sticky-regexp", "/\\bfoo|\\Bx/y"), ("multiline-sticky-regexp", "/^a|b$/gmy"),
    ("lookaround-sticky-regexp", "/(?<=a)b|(?=c)|(?!d)e/y"), ("backref-sticky-regexp", "/(a)?\\1\\b/iy"), ("unicode-regexp", "/\\u{1F600}|./gu"), ("dotall-class-regexp", "/[^\\w\\s]+$/ms"),
    ("error", "new Error('m')"), ("type-error", "new TypeError('t')"),
    ("int32array", "new Int32Array(4)"), ("uint8array", "new Uint8Array([1, 2, 3])"), ("float64array", "new Float64Array(2)"), ("arguments", "(function () { return arguments; })(1, 2)"),
    ("date-now", "Date.now()"), ("native-function", "Math.max"), ("native-method", "[].push"), ("accessor-object", "({get g() { throw new Error('g'); }, set g(v) { throw new Error('s'); }})"),
]
ARGS = [
    "undefined", "null", "NaN", "Infinity", "-Infinity", "-1", "0", "-0", "1", "2147483648", "4294967296", "9007199254740992", "1e21", "1.5", "-1.5", "'5'", "''", "'abc'", "' 12 '", "({})", "[]", "[1, 2]",
    "(function () {})", "(function (a, b) { return NaN; })", "(function () { throw new Error('cb'); })", "true", "/x/g", "({valueOf: function () { throw new Error('v'); }, toString: function () { throw new Error('t'); }})",
    "({valueOf: function () { return {}; }, toString: function () { return {}; }})", "({length: 4294967296, 0: 1})", "({length: -1})", "({get length() { throw new Error('len'); }})", "'\\ud800'", "(function () { return arguments; })(1)",
    "new Int32Array(2)", "Object.create(null)", "[[1], [2]]", "({toString: function () { return 'k'; }, valueOf: function () { return 3; }})", "'__proto__'", "'constructor'", "'9'.repeat(5000)", "'(['", "'{\"a\":'", "'a{99999}'", "'$<$1$&'", "'\\\\'", "'\\n\\u2028'", "1e400", "-9007199254740993", "0.1", "36", "'😀'", "new Error('e')",
    "'$1\u00b2'", "'$\u00b2$1\u0663'", "'\u00b2'", "'\u0663'", "'\uff11\uff12'", "'a{\u00b2}'", "'1\u00b2'", "'\u2460'", "'0x\u00b2'", "'1e\u00b2'",
    "(function f() { return f; })", "[undefined, null, NaN]", "({then: 1, length: '2', 0: 'a', 1: 'b'})",
    # callbacks that re-enter the receiver (r is the receiver of the call being made): grow it, shrink it, replace elements, call the same
    # method again from inside, or make the receiver throw on access
    "(function () { try { r.push(0); } catch (e) {} return 0; })", "(function () { try { r.length = 0; } catch (e) {} return 1; })",
    "(function () { try { r[0] = 9; r.splice(0, 1); r.unshift(1, 2); } catch (e) {} return -1; })", "(function (a, b) { try { r.sort(); r.reverse(); } catch (e) {} return a < b ? 1 : -1; })",
    "(function () { try { Object.defineProperty(r, 'x', {get: function () { throw new Error('late'); }}); r.x; } catch (e) {} return NaN; })",
]


def api_cases(rng, surface, quick, seed):
    cases = []
    methods = []
    for kind, expr in RECEIVERS:
        for name in surface["methods"].get(kind, []):
            methods.append((kind, "var r = %s; r[%s](" % (expr, json.dumps(name)), name))
    for g, ty in surface["globals"]:
        if ty == "function":
            methods.append(("global", "%s(" % g, g + "()"))
            methods.append(("global-new", "new %s(" % g, "new " + g))
        for name in surface["methods"].get("global:" + g, []):
            methods.append(("static:" + g, "%s[%s](" % (g, json.dumps(name)), g + "." + name))
    # operator / property-protocol forms on every receiver kind: (label, template with %(r)s receiver and %(a)s / %(b)s arguments)
    OPS = [("get", "var r = %(r)s; r[%(a)s]"), ("set", "var r = %(r)s; r[%(a)s] = %(b)s"), ("delete", "var r = %(r)s; delete r[%(a)s]"), ("in", "var r = %(r)s; %(a)s in r"),
           ("set-length", "var r = %(r)s; r.length = %(a)s"), ("instanceof", "var r = %(r)s; %(a)s instanceof r"), ("call", "var r = %(r)s; r(%(a)s, %(b)s)"), ("new", "var r = %(r)s; new r(%(a)s, %(b)s)"),
           ("binary+", "var r = %(r)s; r + %(a)s"), ("binary<", "var r = %(r)s; r < %(a)s"), ("binary==", "var r = %(r)s; r == %(a)s"), ("unary-", "var r = %(r)s; [-r, +r, ~r, !r, typeof r, r++]"),
           ("compound", "var r = %(r)s; r[%(a)s] += %(b)s"), ("for-in", "var r = %(r)s; for (var k in r) { r[k]; } k"), ("for-of", "var r = %(r)s; var n = 0; for (var v of r) { n++; } n"),
           ("spread-call", "var r = %(r)s; Math.max.apply(null, r)"), ("template", "var r = %(r)s; String(r) + JSON.stringify(r)"), ("defineProperty", "var r = %(r)s; Object.defineProperty(r, %(a)s, %(b)s)"),
           ("switch", "var r = %(r)s; switch (r) { case %(a)s: 1; break; default: 2; }"), ("throw", "var r = %(r)s; throw r"),
           # regex protocol state set by the script, then every consumer of it
           ("lastIndex-test", "var r = %(r)s; r.lastIndex = %(a)s; [r.test(%(b)s), r.lastIndex]"), ("lastIndex-exec", "var r = %(r)s; r.lastIndex = %(a)s; [r.exec('ab cd'), r.lastIndex]"),
           ("lastIndex-match", "var r = %(r)s; r.lastIndex = %(a)s; ['ab'.match(r), 'ab cd'.replace(r, 'x'), 'a b'.split(r), 'ab'.search(r), r.lastIndex]"),
           ("as-search-arg", "var r = %(r)s; ['ab'.indexOf(r), 'ab'.includes(r), 'ab'.split(r, %(a)s), 'ab'.replace(r, %(a)s), 'ab'.match(r), 'ab'.startsWith(r)]")]
    for kind, expr in RECEIVERS:
        r = random.Random(h([kind, "ops", seed if quick else 0]))
        for label, tpl in OPS:
            two = "%(b)s" in tpl
            one = "%(a)s" in tpl
            if not one:
                vecs = [[]]
            elif not two:
                vecs = [[a] for a in ARGS]
            elif quick:
                vecs = [[r.choice(ARGS), r.choice(ARGS)] for _ in range(30)]
            else:
                vecs = [[a, b] for a in ARGS for b in ARGS]
            for v in vecs:
                src = tpl % {"r": expr, "a": v[0] if v else "", "b": v[1] if len(v) > 1 else ""}
                cases.append({"id": h(["op", kind, label, v]), "fam": "api", "ident": [kind, "op:" + label, len(v)], "src": src})
    for (kind, head, name) in methods:
        r = random.Random(h([kind, name, seed if quick else 0]))
        vecs = [[]] + [[a] for a in ARGS]
        if quick:
            vecs += [[r.choice(ARGS), r.choice(ARGS)] for _ in range(24)]
            vecs += [[r.choice(ARGS), r.choice(ARGS), r.choice(ARGS)] for _ in range(8)]
        else:
            vecs += [[a, b] for a in ARGS for b in ARGS]
            vecs += [[r.choice(ARGS), r.choice(ARGS), r.choice(ARGS)] for _ in range(120)]
            vecs += [[r.choice(ARGS) for _ in range(4)] for _ in range(20)]
        for v in vecs:
            src = head + ", ".join(v) + ")"
            cases.append({"id": h(["api", kind, name, v]), "fam": "api", "ident": [kind, name, len(v)], "src": src})
        # the same callable detached from its receiver and called as a plain function (this is undefined), and borrowed by other receivers
        if head.startswith("var r = ") and "r[" in head:
            acc = head[:head.rindex("(")]            # "var r = <expr>; r["name"]"
            for v in vecs[:6]:
                al = ", ".join(v)
                cases.append({"id": h(["api-detached", kind, name, v]), "fam": "api", "ident": [kind, name + ":detached", len(v)], "src": acc.replace("; r[", "; var m = r[") + "; m(" + al + ")"})
                cases.append({"id": h(["api-comma", kind, name, v]), "fam": "api", "ident": [kind, name + ":detached", len(v)], "src": acc.replace("; r[", "; (0, r[") + ")(" + al + ")"})
                cases.append({"id": h(["api-borrowed", kind, name, v]), "fam": "api", "ident": [kind, name + ":borrowed", len(v)], "src": acc.replace("; r[", "; var m = r[") + "; [m.call(null" + (", " + al if al else "") + "), m.call(5), m.apply({}, [" + al + "]), m.call('s'" + (", " + al if al else "") + ")]"})
    return cases, len(methods)


# values whose SHAPE is the hazard (built at run time, so no parser limit applies): cycles, depth, long chains.  Every
# conversion, traversal, comparison or copy of them is host work that recurses or loops on their structure.
MONSTERS = [
    ("array", "cyclic-array", "var M = [1]; M.push(M);"),
    ("array", "cyclic-array-indirect", "var M = [1, [2]]; M[1].push(M);"),
    ("array", "array-of-cyclic-object", "var M = [{a: 1}]; M[0].self = M;"),
    ("object", "cyclic-object", "var M = {a: 1}; M.self = M;"),
    ("object", "cyclic-object-via-array", "var M = {a: []}; M.a.push(M);"),
    ("array", "deep-array", "var M = [1]; for (var i = 0; i < 3000; i++) { M = [M]; }"),
    ("array", "deep-array-wide", "var M = [1]; for (var i = 0; i < 3000; i++) { M = [0, M, 'x']; }"),
    ("object", "deep-object", "var M = {v: 1}; for (var i = 0; i < 3000; i++) { M = {k: M}; }"),
    ("array", "deep-mixed", "var M = [1]; for (var i = 0; i < 2000; i++) { M = [{k: M}]; }"),
    ("object", "long-prototype-chain", "var M = {base: 1}; for (var i = 0; i < 3000; i++) { M = Object.create(M); }"),
    ("function", "deep-bound-function", "var M = function (a) { return a; }; for (var i = 0; i < 3000; i++) { M = M.bind(null); }"),
    ("function", "deep-closure-chain", "var M = function () { return 1; }; for (var i = 0; i < 2000; i++) { M = (function (g) { return function () { return g(); }; })(M); }"),
    ("object", "getter-chain", "var M = {v: 1}; for (var i = 0; i < 2000; i++) { M = (function (inner) { return {get v() { return inner.v; }}; })(M); }"),
    ("object", "valueOf-chain", "var M = {valueOf: function () { return 1; }}; for (var i = 0; i < 2000; i++) { M = (function (inner) { return {valueOf: function () { return inner + 0; }, toString: function () { return String(inner); }}; })(M); }"),
    ("array", "long-array", "var M = []; for (var i = 0; i < 9000; i++) { M.push(i % 7); }"),
    ("string", "long-string", "var M = 'ab'.repeat(1500);"),
    ("object", "error-with-cyclic-props", "var M = new Error('m'); M.cause = M; M.list = [M];"),
    ("object", "wide-object", "var M = {}; for (var i = 0; i < 5000; i++) { M['k' + i] = i; }"),
    ("array", "array-of-deep", "var D = [1]; for (var i = 0; i < 3000; i++) { D = [D]; } var M = [D, D, 3];"),
    ("object", "proto-of-array-cyclic", "var M = Object.create([1, 2]); M.me = M;"),
    ("object", "regexp-nested-lookbehinds", "var M = new RegExp('(?<='.repeat(180) + 'a' + ')'.repeat(180));"),
    ("object", "regexp-nested-lookaheads", "var M = new RegExp('(?='.repeat(180) + 'a' + ')'.repeat(180));"),
    ("object", "regexp-nested-groups", "var M = new RegExp('('.repeat(400) + 'a' + ')'.repeat(400) + '\\\\400');"),
]
# the same operations started from deep inside nested native calls (callbacks in callbacks): whatever host stack the operation
# needs comes on top of what the nesting already uses
NEST = "function NEST(k, f) { return k === 0 ? f() : [0].map(function () { return NEST(k - 1, f); })[0]; }\n"
NEST_OPS = ["String(M)", "M + ''", "JSON.stringify(M)", "[M].join()", "M.test ? M.test('aaa') : 0", "M.exec ? M.exec('xaaa') : 0", "'aaa'.replace(M, '-')", "'aaa'.split(M)", "'aaa'.match(M)", "'aaa'.search(M)", "Object.keys(M)",
            "M.nosuch", "'x' in M", "M == 1", "M < M", "Object.assign({}, M)", "[M, M].sort()", "Number(M)", "isNaN(M)", "new Error(M)", "M()", "new M()", "typeof M.valueOf()", "for (var k in M) { M[k]; }", "[3, 1, 2].sort(function (a, b) { return a - b; })",
            "JSON.parse('[[[[[[[[[[1]]]]]]]]]]')", "(0, eval)('1 + 1')", "new Function('return 2')()", "'abc'.replace(/b/, function (m) { return m + m; })", "new RegExp('(a+)+b').test('aaaaaaaaaaaaaaaaaaaaaaaa')"]
MONSTER_ARGS = ["", "M", "M, M", "0", "1, M", "function (a, b) { return M; }", "function (a, b) { return a < b ? -1 : 1; }", "'k'", "undefined, M", "null", "-1", "M, 0", "'', M"]
MONSTER_OPS = ["String(M)", "M + ''", "'' + [M]", "M + M", "M < M", "M == M", "M == 1", "M == 'x'", "JSON.stringify(M)", "JSON.stringify([M])", "JSON.stringify({k: M})", "[M].join()", "[M, M].toString()", "M.toString()",
               "Number(M)", "parseInt(M)", "parseFloat(M)", "isNaN(M)", "isFinite(M)", "+M", "-M", "~M", "!M", "typeof M", "M ? 1 : 2", "M && 1", "M || 1", "({})[M]", "var o = {}; o[M] = 1; Object.keys(o)", "M in {}", "'x' in M",
               "M instanceof Array", "M instanceof Object", "({}) instanceof M", "Object.keys(M)", "Object.values(M)", "Object.entries(M)", "Object.assign({}, M)", "Object.assign(M, M)", "Object.create(M)", "Object.getPrototypeOf(M)",
               "Object.setPrototypeOf({}, M)", "Object.setPrototypeOf(M, M)", "Object.defineProperty({}, 'k', M)", "Object.defineProperty(M, 'k', {value: M})", "Object.prototype.toString.call(M)", "Object.prototype.hasOwnProperty.call(M, 'k')",
               "Object.prototype.isPrototypeOf.call(M, M)", "M.hasOwnProperty('v')", "for (var k in M) { M[k]; }", "var n = 0; for (var v of M) { n++; } n", "Array.isArray(M)", "Array.from(M)", "Array.of(M)", "[].concat(M)", "[M].concat([M])",
               "[1, 2].indexOf(M)", "[M].indexOf(M)", "[M].includes(M)", "[M, 1].sort()", "[M, M].sort(function (a, b) { return a < b ? -1 : 1; })", "[M].map(String)", "[M].filter(Boolean)", "[3, M].reduce(function (a, b) { return a + b; })",
               "Math.max(M)", "Math.max.apply(null, M)", "Math.floor(M)", "Math.abs(M)", "new Error(M).message", "new Error('x', {cause: M})", "throw M", "try { throw M; } catch (e) { String(e); }", "new RegExp(M)", "/x/.test(M)", "'abc'.indexOf(M)",
               "'abc'.replace('b', M)", "'abc'.replace(/b/, M)", "'abc'.split(M)", "'abc'.concat(M)", "'abc'.includes(M)", "'a'.repeat(M)", "'a'.padStart(5, M)", "'abc'.slice(M)", "'abc'.charAt(M)", "'abc'.localeCompare && 'abc'.localeCompare(M)",
               "String.fromCharCode(M)", "new Array(M)", "new Int8Array(M)", "new Uint8Array([M])", "new Date(M)", "new String(M)", "new Number(M)", "new Boolean(M)", "new Object(M)", "Function.prototype.call.call(function () { return this; }, M)",
               "(function () { return arguments; }).apply(null, M)", "(function () { return arguments.length; }).apply(null, M)", "(function (a) { return a; }).bind(M)()", "(function () { return this; }).call(M)", "Function.prototype.apply.call(Math.max, null, M)",
               "M()", "new M()", "M.call(null)", "M.apply(null, [1])", "M.bind(null)(1)", "M.length", "M.name", "M.v", "M.k", "M.base", "M[0]", "M.nosuch", "M.v = 1", "delete M.v", "M.length = 0", "M.length = 5", "typeof M.valueOf()", "M.constructor",
               "console.log(M)", "eval(M)", "(0, eval)(M)", "new Function(M)", "new Function('a', M)", "switch (M) { case M: 1; break; default: 2; }", "var c = M; c === M", "[M].lastIndexOf(M)", "[[M]].flat ? [[M]].flat(Infinity) : 0",
               "encodeURIComponent ? 0 : 1", "Number.isInteger(M)", "Number.parseFloat(M)", "(5).toString(M)", "(5).toFixed(M)", "isNaN(M.length)", "Array.prototype.slice.call(M)", "Array.prototype.join.call(M, M)", "Array.prototype.map.call(M, function (x) { return x; })",
               "Array.prototype.concat.call(M, M)", "Array.prototype.push.call(M, M)", "Array.prototype.reverse.call(M)", "Array.prototype.sort.call(M)", "Array.prototype.indexOf.call(M, M)", "String.prototype.trim.call(M)", "String.prototype.split.call(M, '')",
               "String.prototype.replace.call(M, M, M)", "RegExp.prototype.test.call(/a/, M)", "RegExp.prototype.exec.call(/a/, M)", "Object.freeze ? Object.freeze(M) : 0", "Object.keys(M).length", "JSON.parse(JSON.stringify(M))"]


def monster_cases(surface):
    cases = []
    for base, name, build in MONSTERS:
        for op in MONSTER_OPS:
            for wrap in ("%s", "try { %s } catch (e) { String(e); [e.name, e.message]; }"):
                src = build + "\n" + (wrap % op)
                cases.append({"id": h(["monster-op", name, op, wrap[:3]]), "fam": "api", "ident": ["monster:" + name, "op:" + op[:40], 0], "src": src})
        for op in NEST_OPS:
            for depth in (60, 90, 97):
                cases.append({"id": h(["monster-nest", name, op, depth]), "fam": "api", "ident": ["monster:" + name, "nested-natives:" + op[:30], 0],
                              "src": build + "\n" + NEST + "try { NEST(%d, function () { return %s; }); } catch (e) { String(e); }" % (depth, op)})
        for mname in surface["methods"].get(base, []):
            for a in MONSTER_ARGS:
                cases.append({"id": h(["monster-recv", name, mname, a]), "fam": "api", "ident": ["monster:" + name, mname, 1], "src": build + "\nM[%s](%s)" % (json.dumps(mname), a)})
    # as an argument of everything else
    for kind, expr in RECEIVERS:
        for mname in surface["methods"].get(kind, []):
            for bi, (base, name, build) in enumerate(MONSTERS):
                if (hash_small([kind, mname]) + bi) % 4:
                    continue
                for a in ("M", "M, M", "0, M"):
                    cases.append({"id": h(["monster-arg", name, kind, mname, a]), "fam": "api", "ident": ["monster-arg:" + name, kind + "." + mname, 2], "src": build + "\nvar r = %s; r[%s](%s)" % (expr, json.dumps(mname), a)})
    # typed-array views over a buffer: every (buffer size, byte offset, element count) combination around the buffer's end, then reads,
    # writes and bulk operations at the view's first, last and one-past-last element (a view that reaches past its buffer is where host
    # struct/bytearray errors would come from)
    for tk in ("Int8Array", "Uint8Array", "Uint8ClampedArray", "Int16Array", "Uint16Array", "Int32Array", "Uint32Array", "Float32Array", "Float64Array"):
        for nbytes in (0, 8, 16, 17):
            for off in ("0", "1", "2", "4", "8", "16", "-1", "1.5", "undefined"):
                for ln in ("", "0", "1", "2", "3", "4", "5", "8", "9", "16", "17", "-1", "1.5", "undefined"):
                    args = "new ArrayBuffer(%d), %s%s" % (nbytes, off, ", " + ln if ln else "")
                    src = ("var v = new %s(%s); var n = v.length; var out = [n, v[0], v[n - 1], v[n]]; if (n > 0) { v[n - 1] = 7; v[0] = 3; } v[n] = 1; "
                           "v.set([1]); if (n > 1) { v.set([2, 3], n - 2); } out.push(v.join(), v.subarray(0, n).length, '' + v); out") % (tk, args)
                    cases.append({"id": h(["typed-view", tk, nbytes, off, ln]), "fam": "api", "ident": ["typed-view:" + tk, "ctor(%d,%s,%s)" % (nbytes, off, ln), 3], "src": src})
    for g, ty in surface["globals"]:
        for bi, (base, name, build) in enumerate(MONSTERS):
            if ty == "function":
                cases.append({"id": h(["monster-g", name, g]), "fam": "api", "ident": ["monster-arg:" + name, g + "()", 2], "src": build + "\n%s(M)" % g})
                cases.append({"id": h(["monster-gn", name, g]), "fam": "api", "ident": ["monster-arg:" + name, "new " + g, 2], "src": build + "\nnew %s(M)" % g})
            for mname in surface["methods"].get("global:" + g, []):
                if (hash_small([g, mname]) + bi) % 2:
                    continue
                for a in ("M", "M, M"):
                    cases.append({"id": h(["monster-s", name, g, mname, a]), "fam": "api", "ident": ["monster-arg:" + name, g + "." + mname, 2], "src": build + "\n%s[%s](%s)" % (g, json.dumps(mname), a)})
    return cases


def hash_small(x):
    return int(h(x, 6), 16)


# ------------------------------------------------------------------------------------------------ position oracles
def line_starts(src):
    return [0] + [m.end() for m in re.finditer(r"\n", src)]


def to_offset(src, line, col):
    ls = line_starts(src)
    if line < 1 or line > len(ls):
        return None
    return ls[line - 1] + col - 1


def trivia_variants(src):
    """(tag, transformed text, function mapping (line, col) of the original to the expected (line, col))."""
    out = [("lead-newlines", "\n\n\n" + src, lambda l, c: (l + 3, c)),
           ("lead-spaces", "     " + src, lambda l, c: (l, c + 5 if l == 1 else c)),
           ("lead-comment", "/* c\n c */ " + src, lambda l, c: (l + 1, c + 6 if l == 1 else c)),
           ("lead-line-comment", "// c\n" + src, lambda l, c: (l + 1, c))]
    if "\\\n" not in src and "\r" not in src and "`" not in src:
        out.append(("newlines-doubled", src.replace("\n", "\n\n"), lambda l, c: (2 * l - 1, c)))
        out.append(("newlines-indented", src.replace("\n", "\n   "), lambda l, c: (l, c + 3 if l > 1 else c)))
        out.append(("newlines-crlf", src.replace("\n", "\r\n"), lambda l, c: (l, c)))
    return out


# ------------------------------------------------------------------------------------------------ main
def site_key(r):
    s = r.get("site") or ["?", "?", "?"]
    return '%s@%s::%s::"%s"' % (r.get("cls"), s[0], s[1], s[2])


def main(ctx):
    rng = random.Random(ctx.seed)
    fixed = random.Random(404)
    quick = ctx.quick
    vocab = token_vocab()
    progs = corpus(rng, fixed)
    ep = engine_pool()
    npool = node_pool() if have_node() else None
    rec = open(ctx.record_path, "w") if getattr(ctx, "record_path", None) else None
    try:
        # ---- API surface by introspection
        recv = list(RECEIVERS)
        surf0 = ep.map({"mod": "checks.C04", "fn": "w_surface", "opts": {}}, [{"receivers": recv}], batch=1, timeout=300)[0]
        if not isinstance(surf0, dict) or "globals" not in surf0:
            ctx.inconclusive_because("API surface discovery failed: %r" % (surf0,))
            return
        grecv = [("global:" + g, g) for g, ty in surf0["globals"] if ty in ("function", "object")]
        surf1 = ep.map({"mod": "checks.C04", "fn": "w_surface", "opts": {}}, [{"receivers": grecv}], batch=1, timeout=300)[0]
        surface = {"globals": surf0["globals"], "methods": dict(surf0["methods"])}
        surface["methods"].update(surf1.get("methods", {}))
        acases, nmethods = api_cases(rng, surface, quick, ctx.seed)
        mcases = monster_cases(surface)
        if quick:
            mcases = [c for i, c in enumerate(mcases) if (i + ctx.seed) % 3 == 0 or (c["ident"][2] == 0 and (i + ctx.seed) % 2 == 0)]
        acases += mcases
        if nmethods < 150:
            ctx.inconclusive_because("API surface discovery found only %d callables" % nmethods)
        # ---- front-end strings
        fcases = []

        def add(fam, ident, src, **kw):
            d = {"id": h([fam, src]), "fam": fam, "ident": ident, "src": src}
            d.update(kw)
            fcases.append(d)
        n_soup = 4000 if quick else 120000
        for i in range(n_soup):
            r = fixed if i % 2 == 0 else rng
            add("char-soup", ["soup"], "".join(r.choice(SOUP) for _ in range(r.randint(1, 30))))
        for i in range(n_soup):
            r = fixed if i % 2 == 0 else rng
            toks = [r.choice(vocab) for _ in range(r.randint(1, 18))]
            add("token-soup", ["soup"], (" " if r.random() < 0.7 else "").join(toks))
        n_mut = 6000 if quick else 150000
        texts = [p[1] for p in progs]
        small = [p for p in progs if len(p[1]) <= 1500]
        for i in range(n_mut):
            r = fixed if i % 2 == 0 else rng
            name, p = r.choice(progs) if r.random() < 0.5 else r.choice(small)
            m, off = mutate(r, p, vocab, r.choice(texts))
            add("mutation", [name.split(":")[0]], m, fault=off, base=name)
        # every prefix of small programs; sampled prefixes of the big ones
        budget = 5000 if quick else 140000
        per = max(20, budget // len(progs))
        for name, p in progs:
            if len(p) <= per:
                cuts = range(len(p) + 1)
            else:
                r = random.Random(h([name, ctx.seed]))
                cuts = sorted(set(r.randrange(len(p) + 1) for _ in range(per)))
            for c in cuts:
                add("prefix", [name.split(":")[0]], p[:c], base=name)
        for d in ([1, 2, 5, 10, 20, 29, 30] if quick else range(1, 31)):
            for j, s in enumerate(nesting_ladder(d)):
                add("nesting", ["ladder", j], s)
                add("nesting", ["ladder-truncated", j], s[: len(s) * 2 // 3])
        for name, p in progs:
            add("corpus", [name.split(":")[0]], p, base=name)
        for name, src in scale_cases():
            add("scale", [name], src)
        # well-formed programs with HISTORY (sequences of operations on shared state) from the generators of the other properties'
        # checks: object-model histories, key-table rebuilds, array / typed-array view histories, hoisting and closure programs.
        # Here only the boundary is judged: a value or a JSError, whatever the program does.
        from vf import progen as _pg
        from checks import C08 as _c08, C15 as _c15, C17 as _c17
        n_hist = 250 if quick else 6000
        gens = [("object-history", lambda r: _c08.history(r, r.randint(6, 16))), ("key-order", _c15.key_order_program), ("array-history", _c17.history_prog), ("view-history", _c17.view_history),
                ("hoisting", _pg.hoisting_program), ("closure-heavy", _pg.closure_heavy), ("random-program", _pg.random_program)]
        for gname, gen in gens:
            for i in range(n_hist):
                r = fixed if i % 2 == 0 else rng
                try:
                    src = gen(r)
                except Exception:   # noqa  (a generator that needs more context than a bare rng: skip)
                    break
                add("generated-history", [gname], src if isinstance(src, str) else src[0])
        seen = set()
        fcases = [c for c in fcases if not (c["id"] in seen or seen.add(c["id"]))]
        cases = fcases + acases
        res = ep.map({"mod": "checks.C04", "fn": "w_eval", "opts": {}}, cases, batch=120, timeout=90, single_timeout=25)
        # ---- node: which front-end strings are malformed
        malformed = {}
        if npool is not None:
            srcs = [c["src"] for c in fcases]
            B = 400
            nres = npool.map({}, [{"kind": "parse", "srcs": srcs[i:i + B]} for i in range(0, len(srcs), B)], batch=1, timeout=120)
            flat = []
            for i, nr in enumerate(nres):
                chunk = srcs[i * B:(i + 1) * B]
                flat += (nr.get("res") if isinstance(nr, dict) and "res" in nr else [None] * len(chunk))
            for c, v in zip(fcases, flat):
                malformed[c["id"]] = v
        # ---- boundary monitor
        fams = {}
        outcomes = {}
        sx = []     # (case, result) with a JSSyntaxError
        escapes = {}
        for c, r in zip(cases, res):
            ctx.count()
            st = fams.setdefault(c["fam"], {"cases": 0, "returned": 0, "JSSyntaxError": 0, "other-JSError": 0, "limit": 0, "budget-abort": 0, "escape": 0, "hang": 0})
            st["cases"] += 1
            if r is None or "_fail" in (r or {}):
                st["hang"] += 1
                kind = (r or {}).get("_fail", "lost")
                key = ("front-end-" + kind if c["fam"] != "api" else "api-" + kind, c["fam"], tuple(c["ident"][:2]))
                if not ctx.known_site("%s@%s" % (kind, ":".join(str(x) for x in c["ident"][:2]))):
                    ctx.violation(key, {"case": c, "result": r})
                continue
            o = r["o"]
            outcomes[o] = outcomes.get(o, 0) + 1
            if o == "ok":
                st["returned"] += 1
            elif o == "abort":
                st["budget-abort"] += 1
            elif o == "jserr":
                if r.get("cls") == "JSSyntaxError":
                    st["JSSyntaxError"] += 1
                    sx.append((c, r))
                elif r.get("cls") in ("TimeLimitError", "MemoryLimitError"):
                    st["limit"] += 1
                else:
                    st["other-JSError"] += 1
            else:
                st["escape"] += 1
                key = site_key(r)
                escapes[key] = escapes.get(key, 0) + 1
                if ctx.known_site(key):
                    continue
                if rec:
                    rec.write(json.dumps({"key": key, "fam": c["fam"], "ident": c["ident"], "src": c["src"][:300], "msg": r.get("msg")}) + "\n")
                ctx.violation(("escape", key), {"case": {k: (v[:2000] if isinstance(v, str) else v) for k, v in c.items()}, "exception": r})
                continue
            ctx.nontrivial(c["id"])
            # (d) malformed source refused before running anything must be a positioned JSSyntaxError
            if c["fam"] != "api" and malformed.get(c["id"]) == "SyntaxError" and o == "jserr" and r.get("steps", 0) == 0 \
                    and r.get("cls") not in ("TimeLimitError", "MemoryLimitError"):
                if r.get("cls") != "JSSyntaxError" or not r.get("line"):
                    k2 = ("malformed-source-not-positioned-JSSyntaxError", r.get("cls"), re.sub(r"[0-9'\"].*", "", r.get("msg") or "")[:40])
                    if not ctx.known_site("unpositioned:" + k2[2].strip()):
                        if rec:
                            rec.write(json.dumps({"key": "unpositioned:" + k2[2].strip(), "fam": c["fam"], "src": c["src"][:300], "msg": r.get("msg"), "cls": r.get("cls")}) + "\n")
                        ctx.violation(k2, {"case": c["src"][:2000], "exception": r})
            # (e) ... and a syntax error must not surface only after part of the malformed program has run
            if c["fam"] != "api" and malformed.get(c["id"]) == "SyntaxError" and o == "jserr" and r.get("steps", 0) > 0 and r.get("name") == "SyntaxError":
                k3 = ("syntax-error-raised-after-the-program-began-to-run", r.get("cls"), re.sub(r"[0-9'\"/].*", "", r.get("msg") or "")[:40])
                if not ctx.known_site("late-syntax-error:" + k3[2].strip()):
                    ctx.violation(k3, {"case": c["src"][:2000], "exception": r, "steps_before_the_error": r.get("steps")})
        # ---- position monitors
        pos_checked = 0
        variants = []
        for c, r in sx:
            if c["fam"] == "api":
                continue
            src, l, col = c["src"], r.get("line") or 0, r.get("col") or 0
            if l == 0:
                continue
            pos_checked += 1
            plain = not re.search(r"[\r  ]", src)
            ls = line_starts(src)
            bad = None
            if plain:
                if l < 1 or l > len(ls):
                    bad = "line outside the text"
                else:
                    end = (ls[l] - 1) if l < len(ls) else len(src)
                    if col < 1 or ls[l - 1] + col - 1 > end + 1:
                        bad = "column outside its line"
            elif l < 1 or l > len(re.findall(r"\r\n|[\n\r  ]", src)) + 1 or col < 1 or col > len(src) + 1:
                bad = "position outside the text"
            if bad is None and plain and c.get("fault") is not None and c["fam"] == "mutation":
                # not before the start of the line that precedes the fault's line
                off = to_offset(src, l, col)
                fl = src.count("\n", 0, min(c["fault"], len(src)))
                lower = ls[max(0, fl - 1)] if fl < len(ls) else 0
                # statements may span lines: go back to the previous line that ends a statement
                j = max(0, fl - 1)
                while j > 0 and not re.search(r"[;{}]\s*$", src[ls[j - 1]:ls[j]]):
                    j -= 1
                lower = ls[j - 1] if j > 0 else 0
                if off is not None and off < lower:
                    bad = "position before the statement preceding the fault"
            if bad:
                ctx.violation(("syntax-error-position", bad, c["fam"]), {"case": c, "reported": [l, col], "message": r.get("msg")})
                continue
            # trivia metamorphic variants (sampled)
            rr = random.Random(h([c["id"], "v"]))
            if plain and (rr.random() < (0.25 if quick else 0.2)):
                tv = trivia_variants(src)
                tag, text, fn = rr.choice(tv)
                variants.append({"id": c["id"], "src": text, "tag": tag, "expect": list(fn(l, col)), "msg": re.sub(r" \(line \d+, column \d+\)$", "", r.get("msg") or ""), "orig": src})
        vres = ep.map({"mod": "checks.C04", "fn": "w_eval", "opts": {}}, variants, batch=120, timeout=90, single_timeout=25)
        shifted = skipped = 0
        vtags = {}
        for v, r in zip(variants, vres):
            ctx.count()
            if not r or r.get("cls") != "JSSyntaxError" or re.sub(r" \(line \d+, column \d+\)$", "", r.get("msg") or "") != v["msg"]:
                skipped += 1        # a different (or no) diagnosis: the variant is not the same token sequence after all
                continue
            shifted += 1
            vtags[v["tag"]] = vtags.get(v["tag"], 0) + 1
            if [r.get("line"), r.get("col")] != v["expect"]:
                ctx.violation(("syntax-error-position", "trivia-shift", v["tag"]), {"original": v["orig"][:2000], "variant": v["src"][:2000], "expected": v["expect"], "reported": [r.get("line"), r.get("col")], "message": v["msg"]})
            else:
                ctx.nontrivial(h([v["id"], v["tag"]]))
    finally:
        ep.close()
        if npool is not None:
            npool.close()
        if rec:
            rec.close()
    if pos_checked == 0 or shifted == 0:
        ctx.inconclusive_because("no positioned JSSyntaxError was observed / no trivia variant kept its diagnosis")
    ctx.cov["rule"] = ("every case is one Context.eval in a fresh Context; non-trivial = distinct source whose outcome class was observed (returned / JSSyntaxError / other JSError / "
                       "limit / budget-abort); escapes keyed by site; API surface = typeof-function names on 27 receiver kinds and every global, candidates from the string constants of "
                       "vm.py/context.py/values.py and the live property tables")
    ctx.cov["families"] = fams
    ctx.cov["api_callables_discovered"] = nmethods
    ctx.cov["api_name_candidates"] = surf0.get("candidates")
    ctx.cov["outcomes"] = outcomes
    ctx.cov["escape_sites_seen_incl_known"] = escapes
    ctx.cov["syntax_error_positions_checked"] = pos_checked
    ctx.cov["trivia_variants_[same-diagnosis,skipped]"] = [shifted, skipped]
    ctx.cov["trivia_variant_kinds"] = vtags
    ctx.cov["node_malformed_verdicts"] = sum(1 for v in malformed.values() if v == "SyntaxError")
    ctx.sample(fcases[5]["src"][:200])
    ctx.sample(fcases[len(fcases) // 2]["src"][:200])
    ctx.sample(acases[len(acases) // 3]["src"][:200])
    ctx.assumptions += ["hangs are judged by a real-time watchdog (25 s for a single case) because lexer/parser do not tick the virtual clock",
                        "node v20 is used only to tell that a string is malformed (never for positions)"]
