"""C05 — compiled control flow and closures mean what the source says.

Node differential on (ordered log, completion value, uncaught error) over an exhaustive skeleton
grid {enclosing construct} x {construct} x {exit kind} x {expression context of the call} and seeded
random programs; evaluation order is visible through t(k)/log(k) ids.  Known deviations are matched
cell-exactly (known/C05.cells.json).
"""
import json
import random

from vf import diff, skel
from vf.common import h
from vf.runner import engine_pool, have_node, node_pool
from vf import progen


def main(ctx):
    cases = []
    ctxs = list(skel.CONTEXTS) if not ctx.quick else ["stmt", "left+", "arg1", "array", "nested-call", "forin-array"]
    for ident, src in skel.enumerate_skeletons(depth2=True, contexts=ctxs):
        cases.append({"id": h(["skel", ident]), "fam": "skel", "ident": list(ident), "src": src})
    n_grid = len(cases)
    # a completion pending in try/catch that a jump out of the finally block overrides, in a function whose call is an operand of
    # the caller's expression (also inside the caller's for-in / for-of / switch): the caller's operands must be what they were
    for kind, a, b, c, body in skel.override_bodies():
        g = ("function keep(v) { log('keep', v); return v; }\nfunction g() { log('g'); for (var I = 0; I < 2; I++) { log('I', I); %s log('after', I); } log('ge'); return 'N'; }\n" % body)
        for cn, call in skel.CONTEXTS.items():
            if ctx.quick and cn not in ("stmt", "arg1", "array", "forin-array", "forof-sum", "switch-arg") and (int(h([kind, a, b, c, cn], 4), 16) % 3):
                continue
            src = skel.PRELUDE + skel.CTX_PRELUDE + g + "try { " + call + " } catch (E) { log('caught', E); }\nlog('END');\n'done';"
            cases.append({"id": h(["override", kind, a, b, c, cn]), "fam": "finally-override", "ident": [kind, a, b + ("/" + c if c else ""), cn], "src": src})
    for ident, src in progen.closure_probes():
        cases.append({"id": h(["closure", ident]), "fam": "closure", "ident": ident, "src": src})
    for ident, src in progen.completion_probes():
        cases.append({"id": h(["completion", ident]), "fam": "completion", "ident": ident, "src": src, "sloppy": True})
    for ident, src in progen.first_statement_loops():
        if ctx.quick and ident[4] == 4 and ident[3] not in (0, 1):
            continue
        cases.append({"id": h(["firstloop", ident]), "fam": "first-statement-loop", "ident": list(ident), "src": src})
    for li, (ident, src) in enumerate(progen.label_programs()):
        if ctx.quick and li % 3 != ctx.seed % 3 and "+" not in ident[2].split(">")[0]:
            continue
        cases.append({"id": h(["labels", ident]), "fam": "labels", "ident": list(ident), "src": src})
    rng = random.Random(ctx.seed)
    hr = random.Random(ctx.seed * 31 + 7)
    for i in range(600 if ctx.quick else 12000):
        src = progen.hoisting_program(hr)
        cases.append({"id": h(["hoist", src]), "fam": "hoisting", "ident": i, "src": src})
    nrand = 1500 if ctx.quick else 40000
    for i in range(nrand):
        src = progen.random_program(rng)
        cases.append({"id": h(["rnd", src]), "fam": "random", "ident": i, "src": src})
    if not have_node():
        ctx.inconclusive_because("reference_unavailable: /usr/bin/node missing")
        return
    ep, np_ = engine_pool(), node_pool()
    try:
        pairs = diff.run_cases(ep, np_, cases, opts={"max_steps": 60000})
    finally:
        ep.close(); np_.close()
    rec = open(ctx.record_path, "w") if getattr(ctx, "record_path", None) else None
    fams = {}
    for c, (e, n) in zip(cases, pairs):
        ctx.count()
        fams[c["fam"]] = fams.get(c["fam"], 0) + 1
        if e and e.get("log") and len(e["log"]) >= 3:
            ctx.nontrivial(c["id"])
        why = diff.cmp_full(e, n)
        if why is None:
            continue
        oh = h(diff.full_key(e), 10)
        if ctx.known_cell(c["id"], oh):
            continue
        if rec:
            rec.write(json.dumps({"cid": c["id"], "fam": c["fam"], "ident": c["ident"], "why": why, "obs": oh,
                                  "src": c["src"], "eng": diff.full_key(e), "ref": n}) + "\n")
        mech = (c["fam"], why.split(":")[0], tuple(c["ident"][:3]) if c["fam"] == "skel" else c["id"])
        ctx.violation(mech, {"case": c, "monitor": "node-differential:" + why, "observed": diff.full_key(e), "expected": n})
    if rec:
        rec.close()
    ctx.cov["rule"] = ("exhaustive skeleton grid (enclosing construct x construct x exit kind x expression context), closure-"
                       "sharing and completion-value probes, + seeded random programs; non-trivial = the engine logged >= 3 "
                       "events; distinct by case id")
    ctx.cov["skeleton_cells"] = n_grid
    ctx.cov["skeleton_grid_exhaustive"] = True
    ctx.cov["families"] = fams
    ctx.cov["expression_contexts"] = ctxs
    for c in (cases[3], cases[n_grid // 2], cases[-1]):
        ctx.sample({"ident": c["ident"], "src": c["src"]})
    ctx.assumptions += ["node v20 strict mode is the ECMAScript reference for the implemented subset",
                        "generators stay inside the implemented subset (var/function, no let/const/class)"]
