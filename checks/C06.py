"""C06 — operators and conversions on primitive values follow ECMAScript.

Monitors: (1) node differential on typed results of one-expression programs over the full
operand grid x operator table (exhaustive), (2) representation metamorphic oracle: an
integral number spelled as an int literal and as a float-valued expression must give
bit-identical results, (3) compound/update operators on every assignment-target form,
(4) random expression trees.  Known deviations are matched cell-exactly (known/C06.cells.json).
"""
import random

from vf import diff
from vf.common import h
from vf.runner import engine_pool, have_node, node_pool

NUMS = ["NaN", "0", "-0", "1", "-1", "2", "3", "-3", "7", "10", "0.5", "-0.5", "1.5", "2.5", "-1.5", "0.1",
        "31", "32", "33", "255", "256", "2147483647", "2147483648", "-2147483648", "-2147483649",
        "4294967295", "4294967296", "4294967297", "9007199254740991", "9007199254740992",
        "-9007199254740991", "1e21", "1e-7", "1.7976931348623157e308", "5e-324", "1e308",
        "Infinity", "-Infinity", "123456789", "-7.9"]
STRS = ['""', '" "', '"0"', '"1"', '"-1"', '"1.5"', '" 12 "', '"0x10"', '"1e3"', '"abc"', '"Infinity"',
        '"-Infinity"', '"NaN"', '"true"', '"null"', '"undefined"', '"a"', '"b"', '"10"', '"9"', '"+5"',
        '"-"', '".5"', '"5."', '"\\n"', '"12px"', '"0b11"', '"0o17"', '"1e1000"', '"-0"', '"A"', '"aa"']
OTHER = ["true", "false", "null", "undefined"]
GRID = NUMS + STRS + OTHER

BINOPS = ["+", "-", "*", "/", "%", "**", "&", "|", "^", "<<", ">>", ">>>", "<", "<=", ">", ">=",
          "==", "!=", "===", "!==", "&&", "||", ",", "in", "instanceof"]
UNOPS = ["-", "+", "!", "~", "typeof ", "void "]
COMPOUND = ["+=", "-=", "*=", "/=", "%=", "&=", "|=", "^=", "<<=", ">>=", ">>>=", "**="]


def spell(v):
    return "(" + v + ")"


def is_integral_num(v):
    try:
        f = float(v)
    except ValueError:
        return False
    return f == f and abs(f) != float("inf") and f == int(f) and abs(f) < 2 ** 53 and v != "-0"


def float_spelling(v):
    # same mathematical value, forced through a division so the engine holds a float
    return "(" + str(int(float(v)) * 2) + "/2)"


TARGETS = {
    "global": ("var x = {a};", "x {op} {b}", "x"),
    "local": ("", "(function(){{ var x = {a}; var r = (x {op} {b}); return [r, x]; }})()", None),
    "cell": ("", "(function(){{ var x = {a}; var g = function(){{ return x; }}; var r = (x {op} {b}); return [r, x, g()]; }})()", None),
    "free": ("", "(function(){{ var x = {a}; return (function(){{ var r = (x {op} {b}); return [r, x]; }})(); }})()", None),
    "dot": ("var o = {{p: {a}}};", "o.p {op} {b}", "o.p"),
    "bracket": ("var o = {{p: {a}}};", "o[\"p\"] {op} {b}", "o.p"),
    "elem": ("var a = [{a}];", "a[0] {op} {b}", "a[0]"),
    "accessor": ("var L = []; var o = {{_v: {a}, get p(){{ L.push(\"g\"); return this._v; }}, set p(v){{ L.push(\"s\"); this._v = v; }}}};",
                 "o.p {op} {b}", "[o._v, L.join(\"\")]"),
    # targets whose object / key sub-expressions have side effects: each is evaluated once, left to right, before the right operand,
    # and the value is read from and written to that one reference
    "index-postincrement": ("var a = [{a}, 50, 60]; var i = 0;", "a[i++] {op} {b}", "[a, i]"),
    "object-from-call": ("var L = []; var o = {{p: {a}}}; function q() {{ L.push(\"q\"); return o; }}", "q().p {op} {b}", "[o.p, L.join(\"\")]"),
    "key-from-call": ("var L = []; var o = {{p: {a}}}; function k() {{ L.push(\"k\"); return \"p\"; }}", "o[k()] {op} {b}", "[o.p, L.join(\"\")]"),
    "call-call-rhs": ("var L = []; var o = {{p: {a}}}; function q() {{ L.push(\"q\"); return o; }} function k() {{ L.push(\"k\"); return \"p\"; }}",
                      "q()[k()] {op} (L.push(\"r\"), {b})", "[o.p, L.join(\"\")]"),
    "popped-object": ("var st = [{{v: 1}}, {{v: {a}}}]; var top = st[1];", "st.pop().v {op} {b}", "[top.v, st.length, st[0].v]"),
    "nested-member": ("var o = {{q: {{r: {a}}}}};", "o.q.r {op} {b}", "o.q.r"),
    "key-concat-counter": ("var n = 0; var o = {{k0: {a}, k1: 70}};", "o[\"k\" + (n++)] {op} {b}", "[o.k0, o.k1, n]"),
}


def target_prog(kind, a, op, b):
    pre, expr, after = TARGETS[kind]
    if after is None:
        return pre.format(a=a) + expr.format(a=a, op=op, b=b)
    return pre.format(a=a) + " var r = (" + expr.format(op=op, b=b) + "); [r, " + after + "]"


def update_prog(kind, a, op, prefix):
    pre, expr, after = TARGETS[kind]
    e = expr.replace(" {op} {b}", "")
    if after is None:
        # function forms: replace the whole compound expression
        body = expr.format(a=a, op="@@", b="@@")
        body = body.replace("(x @@ @@)", "(" + (op + "x" if prefix else "x" + op) + ")")
        return body
    tgt = e
    upd = (op + tgt) if prefix else (tgt + op)
    return pre.format(a=a) + " var r = (" + upd + "); [r, " + after + "]"


def gen_tree(rng, depth, root=True):
    """** only at the root: its result is implementation-approximated (1 ulp between correct engines), and any operator
    applied on top of it (<<, %, comparisons) can amplify that ulp into a different answer that says nothing about the engine."""
    if depth == 0 or rng.random() < 0.25:
        v = rng.choice(GRID)
        if is_integral_num(v) and rng.random() < 0.3:
            return float_spelling(v)
        return spell(v)
    r = rng.random()
    if r < 0.15:
        return "(" + rng.choice(UNOPS[:5]) + gen_tree(rng, depth - 1, False) + ")"
    if r < 0.22:
        return "(" + gen_tree(rng, depth - 1, False) + " ? " + gen_tree(rng, depth - 1, False) + " : " + gen_tree(rng, depth - 1, False) + ")"
    op = rng.choice(BINOPS[:23])
    while op == "**" and not root:
        op = rng.choice(BINOPS[:23])
    return "(" + gen_tree(rng, depth - 1, False) + " " + op + " " + gen_tree(rng, depth - 1, False) + ")"


def build_cases(ctx):
    """Returns list of (family, src)."""
    cases = []
    for op in BINOPS:
        for a in GRID:
            for b in GRID:
                cases.append(("bin", spell(a) + " " + op + " " + spell(b)))
    for op in UNOPS:
        for a in GRID:
            cases.append(("un", op + spell(a)))
    # array operands: an object operand takes part through its primitive value (an array's is its join), so the same operators
    # applied to them fall back on the primitive semantics above
    arrs = ["({valueOf: function () { return 3; }})", "({toString: function () { return '4'; }})", "({valueOf: function () { return '5'; }, toString: function () { return 'x'; }})", "({valueOf: function () { return {}; }, toString: function () { return 6; }})",
            "[]", "[1]", "[2, 1]", "[2, 1, 3]", "[10]", "[9]", "['b']", "[[1], 2]", "[null]", "[undefined]", "['']", "[0]", "['1', 2]", "[-0]", "[1.5]", "[NaN]"]
    prims = ["1", "2", "'1'", "'2,1'", "''", "'b'", "0", "null", "undefined", "true", "NaN", "'10'", "9"]
    for op in ["<", "<=", ">", ">=", "==", "!=", "===", "!==", "+", "-", "*", "/", "%", "&", "|", "<<"]:
        for a in arrs:
            for b in arrs + prims:
                cases.append(("bin-array", "(" + a + ") " + op + " (" + b + ")"))
                if b in prims:
                    cases.append(("bin-array", "(" + b + ") " + op + " (" + a + ")"))
    for op in UNOPS:
        for a in arrs:
            cases.append(("un-array", op + "(" + a + ")"))
    # operator chains written after a parenthesised first operand inside an enclosing group (and after a nested array literal): the
    # grouping of the chain is the same as without the parentheses
    chain_ops = ["-", "/", "%", "+", "*", "<<", ">>", ">>>", "<", ">", "<=", ">=", "==", "!=", "===", "!==", "&", "|", "^", "&&", "||", "**", ",", "in", "instanceof"]
    vals = [("8", "4", "2"), ("100", "10", "5"), ("1", "2", "'x'"), ("3", "2", "1"), ("256", "2", "1"), ("0.1", "0.2", "0.3"), ("'a'", "1", "2"), ("7", "0", "NaN")]
    for o1 in chain_ops:
        for o2 in chain_ops:
            if o1 in ("in", "instanceof") or o2 in ("in", "instanceof") or ("**" in (o1, o2) and o1 != o2):
                continue
            for a, b, c in vals[:4] if (len(o1) + len(o2)) % 2 else vals[4:]:
                tail = " %s %s %s %s" % (o1, b, o2, c)
                for form in ("((%s)%s)", "(((%s))%s)", "((%s)%s) + 0", "1 * ((%s)%s)", "[[%s][0]%s][0]", "((%s)%s, 5)", "(function () { return ((%s)%s); })()", "[((%s)%s)]"):
                    cases.append(("chain-after-paren", form % (a, tail)))
                cases.append(("chain-after-paren", "(%s%s)" % (a, tail)))
    # conditional / short-circuit with every grid value as condition
    for a in GRID:
        cases.append(("cond", spell(a) + " ? 1 : 2"))
        cases.append(("cond", "!!" + spell(a)))
    # StringToNumber through every operator that applies it: spellings around every edge of the StringNumericLiteral grammar
    spellings = ["-0x10", "+0x10", "-0b1", "+0o7", " -0x1 ", "0x", "0x1g", "0X1F", "0B11", "0O17", "1e", "1e+", "1e+2", "1E-2", ".", "+.5", "-.5e1", "5.e1", "infinity", "INFINITY", "+Infinity", "-Infinity ",
                 "Infinityx", "1_0", "0b12", "0o8", "\u0661", "1n", "0x1p3", "\t\n 12 \u00a0", "\ufeff7\u2028", "\u180e1", "12px", "--1", "+-1", "1 2", "0.0.1", "1e1000", "-1e-1000", "0x8000000000000000",
                 "00012", "-00", "+0", "-0.0", "0e0", ".0", "0.", "1,5", "1.5.", "e5", "+", "+ 1", "- 1", "1e5e2", "0x-1", "NaN", "nan", "null", "true", "1/2", "1e-400", "9007199254740993", "123456789012345678901234567890", "\x001"]
    forms = ["+%s", "-%s", "~%s", "%s * 1", "%s - 0", "%s / 1", "%s %% 7", "%s ** 1", "%s | 0", "%s >>> 0", "%s << 1", "%s == 0", "%s == 16", "%s < 1", "%s >= -16", "1 * %s", "0 - %s", "isNaN(%s)",
             "(function () { var v = %s; v++; return v; })()", "(function () { var o = {p: %s}; o.p -= 1; return o.p; })()", "[%s] * 1", "%s == false", "Number(%s)"]
    for sp in spellings:
        lit = '"' + sp + '"'
        for f in forms:
            cases.append(("string-to-number", f % lit))
    # representation metamorphic partner cases are generated on the fly in main()
    # compound assignment: pairwise sample of operand pairs for every target, full for 'global'
    rng = random.Random(1234)  # fixed: deterministic cells
    small = ["NaN", "-0", "1", "-3", "2.5", "2147483647", "4294967296", "9007199254740992", "1e21", "Infinity",
             '""', '"1"', '"abc"', '" 12 "', "true", "null", "undefined", "33", "-0.5", '"0x10"']
    for kind in TARGETS:
        for op in COMPOUND:
            for a in small:
                for b in small:
                    cases.append(("compound:" + kind, target_prog(kind, a, op, b)))
        for op in ("++", "--"):
            for prefix in (True, False):
                for a in GRID:
                    cases.append(("update:" + kind, update_prog(kind, a, op, prefix)))
    return cases


def ref_key(n):
    if n is None:
        return None
    if "ret" in n:
        return ["ret", n["ret"]]
    return ["throw", n.get("err")]


def ulps(a, b):
    """distance in units of last place between two encoded doubles (None if not comparable)."""
    if a[0] != "d" or b[0] != "d" or "nan" in (a[1], b[1]):
        return None
    def key(hx):
        v = int(hx, 16)
        return v if v < (1 << 63) else -(v - (1 << 63))
    return abs(key(a[1]) - key(b[1]))


def close(a, b):
    """Typed encodings equal up to 1 ulp in doubles (used only where ** is involved); arrays elementwise."""
    if a == b:
        return True
    if not (isinstance(a, list) and isinstance(b, list) and a and b and a[0] == b[0]):
        return False
    if a[0] == "d":
        u = ulps(a, b)
        return u is not None and u <= 1
    if a[0] == "a" and len(a) == 3 and len(b) == 3 and len(a[2]) == len(b[2]):
        return all(close(x, y) for x, y in zip(a[2], b[2]))
    return False


def agree(e, n, src=""):
    """engine outcome e vs reference n."""
    if "ret" in e and "ret" in n:
        if e["ret"] == n["ret"]:
            return True
        # ** is "implementation-approximated" in ECMAScript: V8's own pow differs from the
        # correctly rounded value by an ulp on some inputs; a 1-ulp difference is not judged.
        if "**" in src:
            return close(e["ret"], n["ret"])
        return False
    if "err" in e and "err" in n:
        # reference threw: the engine must fail with a JSError (class name is C07's business)
        return e["err"].get("kind") == "js"
    return False


def main(ctx):
    rng = random.Random(ctx.seed)
    cases = build_cases(ctx)
    n_grid = len(cases)
    ntrees = 4000 if ctx.quick else 150000
    for _ in range(ntrees):
        cases.append(("tree", gen_tree(rng, rng.randint(2, 5))))
    srcs = [c[1] for c in cases]
    if not have_node():
        ctx.inconclusive_because("reference_unavailable: /usr/bin/node missing")
    ep, np_ = engine_pool(), (node_pool() if have_node() else None)
    try:
        pairs = diff.run_progs(ep, np_, srcs, per=400)
        # representation metamorphic: every binary/unary cell whose operands are integral numbers
        meta = []
        for fam, src in cases[:n_grid]:
            if fam not in ("bin", "un"):
                continue
        for op in BINOPS[:23]:
            for a in GRID:
                for b in GRID:
                    ia, ib = is_integral_num(a), is_integral_num(b)
                    if ia or ib:
                        fa = float_spelling(a) if ia else spell(a)
                        fb = float_spelling(b) if ib else spell(b)
                        meta.append((spell(a) + " " + op + " " + spell(b), fa + " " + op + " " + fb))
        for op in UNOPS:
            for a in GRID:
                if is_integral_num(a):
                    meta.append((op + spell(a), op + float_spelling(a)))
        msrc = [m[1] for m in meta]
        mres = diff.run_progs(ep, None, msrc, per=400)
    finally:
        ep.close()
        if np_:
            np_.close()
    base = {}
    fams = {}
    rec = open(ctx.record_path, "w") if getattr(ctx, "record_path", None) else None
    import json
    for (fam, src), (e, n) in zip(cases, pairs):
        ctx.count()
        base[src] = e
        fams[fam] = fams.get(fam, 0) + 1
        if n is None:
            continue
        if "ret" in e and e["ret"][0] == "d":
            ctx.nontrivial(src)
        elif "ret" in e or "err" in e:
            ctx.nontrivial(src)
        if agree(e, n, src):
            continue
        cid = h(src)
        oh = diff.obs_hash(e)
        if ctx.known_cell(cid, oh):
            continue
        if rec:
            rec.write(json.dumps({"cid": cid, "fam": fam, "src": src, "obs": oh, "eng": diff.eng_key(e),
                                  "ref": ref_key(n)}) + "\n")
        ctx.violation(("diff", fam, src if fam != "tree" else h(src)),
                      {"case": src, "monitor": "node-differential", "expected": ref_key(n),
                       "observed": diff.eng_key(e)})
    nmeta = 0
    for (isrc, fsrc), (e, _) in zip(meta, mres):
        ctx.count()
        nmeta += 1
        b = base.get(isrc)
        if b is None:
            continue
        if diff.eng_key(b) == diff.eng_key(e):
            continue
        cid = h(["meta", isrc])
        oh = h([diff.eng_key(b), diff.eng_key(e)], 10)
        if ctx.known_cell(cid, oh):
            continue
        if rec:
            rec.write(json.dumps({"cid": cid, "fam": "meta", "src": isrc, "obs": oh, "eng": diff.eng_key(e),
                                  "ref": diff.eng_key(b), "fsrc": fsrc}) + "\n")
        ctx.violation(("meta", isrc), {"case": [isrc, fsrc], "monitor": "int/float representation metamorphic",
                                       "int_spelling": diff.eng_key(b), "float_spelling": diff.eng_key(e)})
    if rec:
        rec.close()
    ctx.cov["rule"] = ("exhaustive grid: %d operand spellings x %d binary + %d unary operators, compound/update on %d "
                       "target forms, + %d seeded random expression trees; distinct = distinct source text, non-trivial = "
                       "the engine produced a typed value or a JS error for it (all cases); each compared with node "
                       "and, for integral operands, with its float-represented twin" % (
                           len(GRID), len(BINOPS), len(UNOPS), len(TARGETS), ntrees))
    ctx.cov["exhaustive"] = False
    ctx.cov["grid_cells"] = n_grid
    ctx.cov["grid_exhaustive"] = True
    ctx.cov["families"] = fams
    ctx.cov["metamorphic_pairs"] = nmeta
    ctx.cov["reference"] = "node " + ("available" if have_node() else "UNAVAILABLE")
    for s in (srcs[7], srcs[4000], srcs[n_grid - 5], srcs[-1]):
        ctx.sample(s)
    ctx.assumptions += ["node v20 (V8) implements ECMAScript operator semantics on primitives",
                        "typed encoding: doubles compared bit-exactly (NaN canonical), -0 distinguished"]
