"""C07 — exceptions unwind to the right handler; finally runs exactly once.

Monitors: (1) node differential on ordered log/outcome; (2) offline exactly-once checker over the event
log of instrumented try statements (needs no reference): per activation exactly one F, at most one C
carrying the tag of the propagating throw, L only after normal completion; (3) shift metamorphic oracle
on lineNumber/columnNumber; (4) error-object probes (instanceof constructor and Error, name, message);
(5) uncaught throws surface as JSError describing the value.
"""
import json
import random

from vf import diff, skel
from vf.common import h
from vf.runner import engine_pool, have_node, node_pool

TRYISH = {"try-catch", "try-finally", "try-catch-finally", "in-catch", "in-catch-finally", "in-finally"}

THROW_SITES = [
    ("throw-str", "throw 'S';"),
    ("throw-num", "throw 42;"),
    ("throw-obj", "throw {code: 7};"),
    ("throw-null", "throw null;"),
    ("throw-undefined", "throw undefined;"),
    ("throw-Error", "throw new Error('boom');"),
    ("throw-TypeError", "throw new TypeError('tt');"),
    ("throw-RangeError", "throw new RangeError('rr');"),
    ("null-prop", "var n0 = null; n0.x;"),
    ("undef-prop", "var u0; u0.x;"),
    ("null-set", "var n1 = null; n1.x = 1;"),
    ("call-undefined", "var u1; u1();"),
    ("call-number", "var c1 = 5; c1();"),
    ("call-missing-method", "var o1 = {}; o1.nope();"),
    ("unknown-ident", "noSuchVariable;"),
    ("in-primitive", "'a' in 5;"),
    ("instanceof-noncallable", "({}) instanceof 5;"),
    ("new-noncallable", "var k1 = 5; new k1();"),
    ("reduce-empty", "[].reduce(function (a, b) { return a; });"),
    ("replaceAll-nonglobal", "'aa'.replaceAll(/a/, 'b');"),
    ("repeat-negative", "'a'.repeat(-1);"),
    ("toFixed-range", "(1).toFixed(101);"),
    ("toString-radix", "(1).toString(1);"),
    ("json-parse", "JSON.parse('{bad');"),
    ("regexp-ctor", "new RegExp('(');"),
    ("in-callback", "[1, 2].forEach(function (x) { if (x === 2) throw 'CB'; });"),
    ("in-map-callback-typeerror", "[1].map(function (x) { return null.p; });"),
    ("in-getter", "({get p() { throw 'G'; }}).p;"),
    ("in-setter", "({set p(v) { throw 'SET'; }}).p = 1;"),
    ("in-valueOf", "1 + {valueOf: function () { throw 'VO'; }};"),
    ("in-toString", "'' + {toString: function () { throw 'TS'; }};"),
    ("in-comparator", "[2, 1].sort(function (a, b) { throw 'CMP'; });"),
    ("in-callee", "(function () { throw 'CAL'; })();"),
    ("two-native-frames", "[1].forEach(function () { [2].map(function () { throw 'NN'; }); });"),
    ("in-eval", "eval('throw \\'EV\\'');"),
    ("in-ctor", "function K0() { throw 'K'; } new K0();"),
    ("in-call", "(function () { throw 'C0'; }).call(null);"),
    ("in-apply", "(function () { throw 'A0'; }).apply(null, []);"),
]
# every kind of thrown value (falsy ones included) through every way a throw crosses a boundary inside the engine
_VALUES = {"zero": "0", "neg-zero": "-0", "empty-string": "''", "false": "false", "null": "null", "undefined": "undefined", "NaN": "NaN", "true": "true", "array": "[]"}
_ROUTES = {"eval": "(0, eval)(%s);", "eval-in-eval": "(0, eval)(%s);", "Function": "new Function(%s)();", "callback": "[1].forEach(function () { %s });", "getter": "({get p() { %s }}).p;",
           "valueOf": "1 + {valueOf: function () { %s }};", "comparator": "[2, 1].sort(function () { %s });", "replacer": "'a'.replace('a', function () { %s });", "call": "(function () { %s }).call(null);",
           "ctor": "new (function () { %s })();", "eval-in-callback": "[1].map(function () { return (0, eval)(%s); });", "callback-in-eval": "(0, eval)(%s);"}
for _vn, _v in _VALUES.items():
    for _rn, _r in _ROUTES.items():
        _t = "throw %s;" % _v
        if _rn in ("eval", "Function"):
            _site = _r % json.dumps(_t)
        elif _rn == "eval-in-eval":
            _site = _r % json.dumps("(0, eval)(%s);" % json.dumps(_t))
        elif _rn == "eval-in-callback":
            _site = _r % json.dumps(_t)
        elif _rn == "callback-in-eval":
            _site = _r % json.dumps("[1].forEach(function () { %s });" % _t)
        else:
            _site = _r % _t
        THROW_SITES.append(("value-%s-via-%s" % (_vn, _rn), _site))

HANDLERS = [
    ("same", "function f() { try { %s log('after-site'); } catch (e) { log('caught', desc(e)); } log('resumed'); } f();"),
    ("caller", "function f() { %s log('after-site'); } function c() { try { f(); log('after-call'); } catch (e) { log('caught', desc(e)); } log('resumed'); } c();"),
    ("across-native", "function f() { %s } function c() { try { [1, 2].forEach(function (x) { log('it', x); f(); }); log('after-native'); } catch (e) { log('caught', desc(e)); } log('resumed'); } c();"),
    ("across-two-natives", "function f() { %s } try { [1].map(function (x) { return [2, 3].filter(function (y) { log('it', y); f(); return true; }); }); } catch (e) { log('caught', desc(e)); } log('resumed');"),
    # the handler sits in script code BETWEEN two native frames: the inner built-in must be abandoned, the outer one must go on
    ("between-natives", "function f() { %s } var out = [1, 2].map(function (v) { try { [10, 20, 30].forEach(function (w) { log('it', v, w); if (w === 20) { f(); } }); log('after-inner', v); } "
                        "catch (e) { log('caught', v, desc(e)); return 'c' + v; } finally { log('fin', v); } return 'n' + v; }); log('out', out);"),
    ("between-natives-finally-only", "function f() { %s } try { [1, 2].forEach(function (v) { try { [5, 6].sort(function (a, b) { log('cmp', v); f(); return 0; }); } finally { log('fin', v); } }); } "
                                     "catch (e) { log('outer', desc(e)); } log('resumed');"),
    ("between-three-natives", "function f() { %s } var r = [1].map(function (a) { return [2, 3].filter(function (b) { try { return [4, 5].some(function (c) { log('it', a, b, c); f(); return false; }); } "
                              "catch (e) { log('caught', b, desc(e)); return b === 3; } }); }); log('r', r);"),
    ("between-native-and-accessor", "function f() { %s } var o = {get g() { try { [1, 2].forEach(function (x) { log('it', x); f(); }); } catch (e) { log('caught', desc(e)); return 'G'; } return 'N'; }}; "
                                    "log('vals', [7, 8].map(function (k) { return o.g + k; }));"),
    ("finally-only", "function f() { try { %s } finally { log('fin'); } } try { f(); } catch (e) { log('caught', desc(e)); }"),
    ("catch-rethrow", "function f() { try { %s } catch (e) { log('inner', desc(e)); throw e; } finally { log('fin'); } } try { f(); } catch (e2) { log('outer', desc(e2)); }"),
    ("catch-throws-new", "function f() { try { %s } catch (e) { throw 'NEW'; } finally { log('fin'); } } try { f(); } catch (e2) { log('outer', desc(e2)); }"),
    ("finally-throws", "function f() { try { %s } finally { log('fin'); throw 'FROM-FIN'; } } try { f(); } catch (e2) { log('outer', desc(e2)); }"),
    ("finally-returns", "function f() { try { %s } finally { log('fin'); return 'R'; } } log('ret', f());"),
    ("in-expression", "function f() { %s return 1; } try { log('v', 1 + f() * 2, [f(), 3]); } catch (e) { log('caught', desc(e)); } log('resumed', 10 + 1);"),
    ("in-loop", "for (var i = 0; i < 3; i++) { try { if (i === 1) { %s } log('body', i); } catch (e) { log('caught', i, desc(e)); continue; } finally { log('fin', i); } log('tail', i); }"),
    ("none", "log('start'); %s log('not-reached');"),
]

DESC = ("function desc(e) { if (e === null) return 'null'; if (typeof e === 'object') { "
        "if (typeof e.name === 'string' && e.message !== undefined) return 'E:' + e.name; return 'obj'; } return typeof e + ':' + e; }\n")

ERROR_PROBE = ("try { %s } catch (e) { log(typeof e === 'object' && e !== null ? [e instanceof Error, e instanceof %s, e.name, typeof e.message, "
               "e.constructor === %s] : ['primitive', e]); }")
RUNTIME_ERRORS = {
    "null-prop": "TypeError", "undef-prop": "TypeError", "null-set": "TypeError", "call-undefined": "TypeError",
    "call-number": "TypeError", "call-missing-method": "TypeError", "unknown-ident": "ReferenceError",
    "in-primitive": "TypeError", "instanceof-noncallable": "TypeError", "new-noncallable": "TypeError",
    "reduce-empty": "TypeError", "replaceAll-nonglobal": "TypeError", "repeat-negative": "RangeError",
    "toFixed-range": "RangeError", "toString-radix": "RangeError", "json-parse": "SyntaxError", "regexp-ctor": "SyntaxError",
    "throw-Error": "Error", "throw-TypeError": "TypeError", "throw-RangeError": "RangeError",
    "in-map-callback-typeerror": "TypeError",
}


# ---------------- instrumented try trees (exactly-once checker) -----------------------
class TryGen:
    def __init__(self, rng):
        self.r = rng
        self.n = 0
        self.tag = 0

    def new_id(self):
        self.n += 1
        return self.n

    def stmts(self, d, in_loop, in_func, k=None):
        return " ".join(self.stmt(d, in_loop, in_func) for _ in range(k or self.r.randint(1, 3)))

    def thrower(self):
        self.tag += 1
        kind = self.r.random()
        t = "'T%d'" % self.tag
        if kind < 0.5:
            return "throw %s;" % t
        if kind < 0.65:
            return "thrower(%s);" % t
        if kind < 0.8:
            return "[1].forEach(function () { throw %s; });" % t
        if kind < 0.9:
            return "var z%d = 1 + thrower(%s);" % (self.tag, t)
        return "({get p() { throw %s; }}).p;" % t

    def stmt(self, d, in_loop, in_func):
        r = self.r.random()
        if d <= 0 or r < 0.2:
            return "log('s', %d);" % self.new_id()
        if r < 0.4:
            return ("if (%s) { " % self.r.choice(["true", "false", "true"])) + self.thrower() + " }"
        if r < 0.48 and in_loop:
            return "if (%s) %s" % (self.r.choice(["true", "false"]), self.r.choice(["break;", "continue;"]))
        if r < 0.55 and in_func:
            return "if (%s) return %d;" % (self.r.choice(["true", "false"]), self.new_id())
        if r < 0.65:
            v = "i%d" % self.new_id()
            return "for (var %s = 0; %s < 2; %s++) { %s }" % (v, v, v, self.stmts(d - 1, True, in_func))
        i = self.new_id()
        a = "a%d" % i
        has_catch = self.r.random() < 0.7
        has_fin = (not has_catch) or self.r.random() < 0.6
        s = "var %s; try { %s = EV('E', %d); %s }" % (a, a, i, self.stmts(d - 1, in_loop, in_func))
        if has_catch:
            s += " catch (e%d) { EV('C', %d, %s, e%d); %s }" % (i, i, a, i, self.stmts(d - 1, in_loop, in_func, k=1))
        if has_fin:
            s += " finally { EV('F', %d, %s); %s }" % (i, a, self.stmts(d - 2, False, False, k=1))
        s += " EV('L', %d, %s);" % (i, a)
        return s


TRY_PRELUDE = ("var SEQ = 0;\nfunction EV(k, id, act, val) { if (k === 'E') { SEQ++; log('E', id, SEQ); return SEQ; } "
               "log(k, id, act, val === undefined ? 'none' : val); return 0; }\n"
               "function thrower(v) { throw v; }\n")


def try_tree_program(rng):
    g = TryGen(rng)
    body = g.stmts(3, False, True)
    return (TRY_PRELUDE + "function main() { " + body + " return 'done'; }\n"
            "try { log('ret', main()); } catch (E) { log('escaped', E); }\nlog('END');\n'x';")


def check_exactly_once(log):
    """Offline checker over E/C/F/L events. Returns list of problems."""
    probs = []
    acts = {}
    for ev in log:
        if not ev or ev[0][0] != "s":
            continue
        k = ev[0][1]
        if k == "E":
            acts[num(ev[2])] = {"id": num(ev[1]), "F": 0, "C": 0, "L": 0, "closed": False}
        elif k in ("C", "F", "L"):
            a = acts.get(num(ev[2]))
            if a is None:
                probs.append("event %s for unknown activation" % k)
                continue
            if a["id"] != num(ev[1]):
                probs.append("activation/id mismatch")
            a[k] += 1
            if k == "C" and a["F"]:
                probs.append("catch after finally")
            if k == "L" and a["C"] == 0 and False:
                pass
    for seq, a in acts.items():
        if a["F"] > 1:
            probs.append("finally ran %d times (try %d)" % (a["F"], a["id"]))
        if a["C"] > 1:
            probs.append("catch ran %d times (try %d)" % (a["C"], a["id"]))
        if a["L"] > 1:
            probs.append("statement completed %d times (try %d)" % (a["L"], a["id"]))
    return probs, acts


def num(x):
    if x[0] == "d":
        import struct
        return int(struct.unpack(">d", bytes.fromhex(x[1]))[0])
    return None


SHIFT_PROGS = [
    ("throw-stmt", "var r;\ntry {\n  throw new Error('x');\n} catch (e) { r = [e.lineNumber, e.columnNumber]; }\nlog(r);"),
    ("throw-in-func", "function f() {\n    throw new TypeError('y');\n}\nvar r;\ntry { f(); } catch (e) { r = [e.lineNumber, e.columnNumber]; }\nlog(r);"),
    ("throw-nested", "var r;\ntry {\n  try {\n      throw new RangeError('z');\n  } finally { }\n} catch (e) { r = [e.lineNumber, e.columnNumber]; }\nlog(r);"),
    ("throw-in-callback", "var r;\ntry {\n  [1].forEach(function () {\n        throw new Error('cb');\n  });\n} catch (e) { r = [e.lineNumber, e.columnNumber]; }\nlog(r);"),
    ("runtime-typeerror", "var r; var nul = null;\ntry {\n  var a = 1;\n     nul.x;\n} catch (e) { r = [e.lineNumber, e.columnNumber]; }\nlog(r);", "nul.x"),
    ("runtime-referenceerror-in-func", "var r;\nfunction g() {\n  var q = 1;\n        missingName;\n}\ntry { g(); } catch (e) { r = [e.lineNumber, e.columnNumber]; }\nlog(r);", "missingName"),
    ("runtime-rangeerror-builtin", "var r;\ntry {\n    'a'.repeat(-1);\n} catch (e) { r = [e.lineNumber, e.columnNumber]; }\nlog(r);", "'a'.repeat"),
]


# the throw (or runtime error) is NOT the last statement of its function, and the handler is below a native frame: the location
# must still be the throwing statement's, not the next statement's and not the statement that called the built-in
ROUTES = {
    "direct": "cb();", "forEach": "[1].forEach(cb);", "map": "[1].map(cb);", "sort": "[2, 1].sort(cb);", "reduce": "[1, 2].reduce(cb);", "replace-fn": "'a'.replace('a', cb);",
    "replace-regexp-fn": "'a'.replace(/a/, cb);", "call": "cb.call(null);", "apply": "cb.apply(null, []);", "bind": "cb.bind(null)();", "valueOf": "({valueOf: cb}) + 1;",
    "toString": "String({toString: cb});", "getter": "({get g() { return cb(); }}).g;", "setter": "({set s(v) { cb(); }}).s = 1;", "two-natives": "[1].map(function () { return [2].filter(cb); });",
    "eval": "(0, eval)('cb()');", "new": "new cb();", "JSON-getter": "JSON.stringify({get g() { return cb(); }});",
}
for _rn, _call in ROUTES.items():
    for _kind, _stmt, _marker in (("throw", "throw new RangeError('loc');", "throw new RangeError"), ("runtime", "undefinedThing.prop;", "undefinedThing.prop")):
        SHIFT_PROGS.append(("%s-via-%s" % (_kind, _rn),
                            "var r;\nfunction cb() {\n  var before = 1;\n      %s\n  var after = 2;\n  return after;\n}\ntry {\n  var pad = 0;\n  %s\n  pad = 1;\n} catch (e) { r = [e.lineNumber, e.columnNumber]; }\nlog(r);"
                            % (_stmt, _call), _marker))
SHIFT_PROGS += [
    ("throw-then-statement", "var r;\nfunction f() {\n    throw new Error('first');\n  var y = 1;\n}\ntry { f(); } catch (e) { r = [e.lineNumber, e.columnNumber]; }\nlog(r);", "throw new Error"),
    ("throw-in-if-then-return", "var r;\nfunction f(a) {\n  if (a) {\n       throw new TypeError('t');\n  }\n  return 5;\n}\ntry { f(1); } catch (e) { r = [e.lineNumber, e.columnNumber]; }\nlog(r);", "throw new TypeError"),
    ("toplevel-throw-then-statement", "var r;\ntry {\n   throw new Error('a');\n  r = 0;\n} catch (e) { r = [e.lineNumber, e.columnNumber]; }\nlog(r);", "throw new Error"),
    ("throw-in-loop-body", "var r;\ntry {\n  for (var i = 0; i < 3; i++) {\n    if (i === 1)\n          throw new Error('l');\n    r = i;\n  }\n} catch (e) { r = [e.lineNumber, e.columnNumber]; }\nlog(r);", "throw new Error"),
    ("finally-on-exception-path-keeps-location", "var r;\ntry {\n  try {\n      undefinedThing.prop;\n  } finally {\n    var a = 1;\n    a = 2;\n  }\n} catch (e) { r = [e.lineNumber, e.columnNumber]; }\nlog(r);", "undefinedThing.prop"),
    ("finally-after-throw-keeps-location", "var r;\nfunction f() {\n  try {\n        throw new RangeError('loc');\n  } finally {\n    var b = 1;\n    for (var i = 0; i < 2; i++) { b += i; }\n  }\n}\ntry { f(); } catch (e) { r = [e.lineNumber, e.columnNumber]; }\nlog(r);", "throw new RangeError"),
    ("two-finally-blocks-keep-location", "var r;\ntry {\n  try {\n    try {\n          undefinedThing.prop;\n    } finally {\n      var a = 1;\n    }\n  } finally {\n    var b = 2;\n    b++;\n  }\n} catch (e) { r = [e.lineNumber, e.columnNumber]; }\nlog(r);", "undefinedThing.prop"),
    ("error-after-callback-body", "var r;\ntry {\n  [1].forEach(function (x) {\n    var y = 1;\n  }),\n      undefinedThing.prop;\n} catch (e) { r = [e.lineNumber, e.columnNumber]; }\nlog(r);", "undefinedThing.prop", "[1].forEach"),
    ("error-in-do-while-test", "var r;\ntry {\n  do {\n    var y = 1;\n    y++;\n  } while (\n      undefinedThing.prop);\n} catch (e) { r = [e.lineNumber, e.columnNumber]; }\nlog(r);", "undefinedThing.prop", "do {"),
    ("error-in-for-update", "var r;\ntry {\n  for (var i = 0; i < 2;\n      undefinedThing.prop) {\n    var y = 1;\n  }\n} catch (e) { r = [e.lineNumber, e.columnNumber]; }\nlog(r);", "undefinedThing.prop", "for (var i"),
    ("error-in-while-test-second-round", "var r; var n = 0;\ntry {\n  while (n++ < 1 ||\n      undefinedThing.prop) {\n    var y = 1;\n  }\n} catch (e) { r = [e.lineNumber, e.columnNumber]; }\nlog(r);", "undefinedThing.prop", "while (n++"),
    ("error-after-function-expression", "var r;\ntry {\n  var g = function () {\n    return 1;\n  };\n      undefinedThing.prop;\n} catch (e) { r = [e.lineNumber, e.columnNumber]; }\nlog(r);", "undefinedThing.prop"),
    ("throw-after-multiline-comment", "var r;\ntry {\n  /* a comment\n     over two lines */ throw new Error('c');\n} catch (e) { r = [e.lineNumber, e.columnNumber]; }\nlog(r);", "throw new Error"),
    ("runtime-error-after-multiline-comment", "var r;\ntry {\n  var a = 1; /* one\n two\n three */   undefinedThing.prop;\n} catch (e) { r = [e.lineNumber, e.columnNumber]; }\nlog(r);", "undefinedThing.prop"),
    ("throw-in-callback-after-multiline-comment", "var r;\ntry {\n  [1].forEach(function () { /*\n*/ throw new RangeError('x'); });\n} catch (e) { r = [e.lineNumber, e.columnNumber]; }\nlog(r);", "throw new RangeError"),
    ("throw-after-two-comments", "var r;\ntry {\n  /* a */ /* b\n c */ /* d */ throw new Error('c');\n} catch (e) { r = [e.lineNumber, e.columnNumber]; }\nlog(r);", "throw new Error"),
    ("rethrow-keeps-or-updates", "var r;\ntry {\n  try {\n    null.x;\n  } catch (e1) {\n        throw e1;\n  }\n} catch (e) { r = [e.lineNumber, e.columnNumber]; }\nlog(r);", "throw e1"),
]


# ---- functions of every kind DEFINED inside try / catch / finally blocks: their own exits (return, normal end, throw) belong to
# the function, not to the try statement they are written in; the enclosing handlers must be exactly as if the function were elsewhere
FN_KINDS = {
    "function-expr": "var fn = function (x) { log('in', x); if (x > 1) { return x * 2; } return x; };",
    "arrow-block-return": "var fn = (x) => { log('in', x); if (x > 1) { return x * 2; } return x; };",
    "arrow-block-no-return": "var fn = (x) => { log('in', x); };",
    "arrow-expr": "var fn = (x) => x * 2;",
    "arrow-block-return-void": "var fn = (x) => { log('in', x); return; };",
    "arrow-in-arrow": "var fn = (x) => { var inner = (y) => { return y + 1; }; return inner(x); };",
    "arrow-return-in-loop": "var fn = (x) => { for (var i = 0; i < 3; i++) { if (i === x) { return 'at' + i; } } return 'none'; };",
    "arrow-return-in-own-try": "var fn = (x) => { try { return x; } finally { log('own-finally'); } };",
    "arrow-break-continue": "var fn = (x) => { var n = 0; for (var i = 0; i < 4; i++) { if (i === 1) { continue; } if (i === 3) { break; } n += i; } return n; };",
    "function-decl": "function fn(x) { log('in', x); return x * 2; }",
    "method": "var fn = ({m(x) { log('in', x); return x * 2; }}).m;",
    "getter": "var holder = {get g() { log('in-getter'); return 5; }}; var fn = function (x) { return holder.g + x; };",
    "arrow-throws": "var fn = (x) => { if (x === 2) { throw new RangeError('from-arrow'); } return x; };",
}
FN_PLACES = {
    "try": "try { %(def)s %(use)s %(after)s } catch (e) { log('caught', e && e.name ? e.name : e); } finally { log('finally'); }",
    "try-catch-only": "try { %(def)s %(use)s %(after)s } catch (e) { log('caught', e && e.name ? e.name : e); }",
    "try-finally-only": "try { try { %(def)s %(use)s %(after)s } finally { log('finally'); } } catch (e2) { log('outer', e2 && e2.name ? e2.name : e2); }",
    "catch": "try { throw 'first'; } catch (e0) { try { %(def)s %(use)s %(after)s } catch (e) { log('caught', e && e.name ? e.name : e); } finally { log('finally'); } }",
    "finally": "try { try { log('body'); } finally { %(def)s %(use)s %(after)s } } catch (e) { log('caught', e && e.name ? e.name : e); }",
    "nested-try": "try { try { %(def)s %(use)s %(after)s } catch (e) { log('inner', e && e.name ? e.name : e); throw e; } finally { log('inner-finally'); } } catch (e2) { log('outer', e2 && e2.name ? e2.name : e2); } finally { log('outer-finally'); }",
    "try-in-loop": "for (var L = 0; L < 2; L++) { try { %(def)s %(use)s %(after)s } catch (e) { log('caught', L, e && e.name ? e.name : e); } finally { log('finally', L); } }",
    "try-in-function": "function host() { try { %(def)s %(use)s %(after)s } catch (e) { log('caught', e && e.name ? e.name : e); return 'from-catch'; } finally { log('finally'); } return 'end'; } log('host', host());",
}
FN_USES = {"call": "log('r', fn(2));", "map": "log('r', [1, 2, 3].map(fn));", "forEach": "[1, 2].forEach(fn);", "call-twice": "log('r', fn(1), fn(2));", "not-called": "log('defined', typeof fn);",
           "sort": "log('r', [3, 1, 2].sort(function (a, b) { return fn(a) - fn(b); }));", "call-apply": "log('r', fn.call(null, 2), fn.apply(null, [1]));"}
FN_AFTER = {"throw": "throw new TypeError('after');", "runtime-error": "null.x;", "nothing": "log('no-throw');", "throw-then-more": "if (typeof fn === 'function') { throw 'str'; } log('unreached');"}


def functions_in_try(quick, seed):
    out = []
    k = 0
    for kn, kd in FN_KINDS.items():
        for pn, pl in FN_PLACES.items():
            for un, us in FN_USES.items():
                for an, af in FN_AFTER.items():
                    k += 1
                    if quick and (k + seed) % 4 and not (kn.startswith("arrow") and un in ("map", "call") and an == "throw"):
                        continue
                    src = pl % {"def": kd, "use": us, "after": af}
                    out.append({"id": h(["fn-in-try", kn, pn, un, an]), "fam": "fn-in-try", "ident": [kn, pn, un + "/" + an], "src": src + "\nlog('END');\n'x';"})
    return out


# ---- location histories: an error's location is a function of its own throw site, not of what was thrown before it ----------------
LOC_BODIES = ["null.alpha;", "null.beta;", "undefinedThing.prop;", "throw new Error('x');", "throw new TypeError('y');", "'a'.repeat(-1);", "(void 0)();", "new Array(-1);",
              "var q = 1; null.alpha;", "if (true) { null.alpha; }", "throw {custom: 1};", "JSON.parse('{');", "[].reduce(function () { });"]
LOC_CALLS = ["probe(%s);", "[4].forEach(function () { probe(%s); });", "probe(function () { return %s(); });", "(0, eval)('probe(%s)');", "new Function('probe(%s)')();",
             "probe(%s.bind(null));", "probe(function () { [1].map(%s); });", "try { %s(); } catch (e0) { out.push(['%s', e0 && e0.lineNumber, e0 && e0.columnNumber]); }"]


def location_history(rng):
    """(source prefix with K functions - many of the same shape - at random positions, list of call statements)."""
    k = rng.randint(2, 6)
    pool = rng.sample(LOC_BODIES, rng.randint(1, 3))      # few distinct shapes: same-shaped functions are the norm
    lines = ["var out = [];", "function probe(f) { try { f(); } catch (e) { out.push([f.name, e && e.lineNumber, e && e.columnNumber]); } }"]
    names = []
    for i in range(k):
        nm = "fn%d" % i      # same-length names: the functions compile to the same instruction bytes when their bodies agree
        names.append(nm)
        lines += [""] * rng.randint(0, 3)
        style = rng.random()
        body = rng.choice(pool)
        ind = " " * rng.randint(0, 9)
        if style < 0.6:
            lines += ["function %s() {" % nm, ind + body, "}"]
        elif style < 0.8:
            lines += [ind + "function %s() { %s }" % (nm, body)]
        else:
            lines += ["var %s = function %s() {" % (nm, nm), "", ind + body, "};"]
    calls = []
    for _ in range(rng.randint(3, 8)):
        nm = rng.choice(names)
        c = rng.choice(LOC_CALLS)
        calls.append((nm, c.replace("%s", nm)))
    return "\n".join(lines) + "\n", calls


def main(ctx):
    cases = []
    for sn, site in THROW_SITES:
        for hn, hsrc in HANDLERS:
            cases.append({"id": h(["site", sn, hn]), "fam": "site", "ident": [sn, hn],
                          "src": DESC + (hsrc % site) + "\nlog('END');\n'x';"})
    for sn, cls in RUNTIME_ERRORS.items():
        site = dict(THROW_SITES)[sn]
        cases.append({"id": h(["errobj", sn]), "fam": "errobj", "ident": [sn, cls],
                      "src": (ERROR_PROBE % (site, cls, cls)) + "\nlog('END');\n'x';"})
        # ... also after the script has bound the global name of the constructor (and Error) to something else: the engine's own errors
        # are instances of the original constructors
        for rb, rebind in (("function", "%s = function () { };"), ("primitive", "%s = 5;"), ("other-error", "%s = URIError;"), ("error-too", "%s = null; Error = function () { };")):
            cases.append({"id": h(["errobj-rebound", sn, rb]), "fam": "errobj", "ident": [sn, cls, "rebound:" + rb],
                          "src": "var KEEP = %s, KEEPE = Error; try { %s } catch (e0) { log('rebind-threw', e0.name); }\n" % (cls, rebind % cls) +
                                 (ERROR_PROBE % (site, "KEEP", "KEEP")).replace("e instanceof Error", "e instanceof KEEPE") + "\nlog('END');\n'x';"})
    # the message of a ReferenceError names the identifier, whatever letters it starts with (the error's own name, ':' and ' ' included),
    # and the message given to an Error constructor comes back unchanged
    import string as _string
    idents = [c + "q9" for c in _string.ascii_letters + "_$"] + [c * 3 + "x" for c in "RefrncEoTypRag"] + \
             ["Reference", "ReferenceErrorr", "counter", "enrollment", "foo", "error", "Type", "TypeErrorX", "Range", "RangeErr", "eee", "rrr", "ooo", "nnn", "ccc", "fff"]
    for idn in idents:
        for form, use in (("read", "%s;"), ("call", "%s();"), ("member", "%s.x;"), ("in-callback", "[1].map(function () { return %s; });"), ("typeof-guarded", "typeof %s; %s;")):
            cases.append({"id": h(["refmsg", idn, form]), "fam": "message", "ident": ["unknown-identifier", form, idn],
                          "src": "try { %s } catch (e) { log(e.name, e.message); }\nlog('END');\n'x';" % use.replace("%s", idn)})
    for cls in ("Error", "TypeError", "RangeError", "ReferenceError", "SyntaxError", "EvalError", "URIError"):
        for msg in (cls, cls + ": " + cls, cls.lower(), ": x", " x", cls[:3] + "zz", "".join(sorted(set(cls))), cls + ":", ""):
            for form in ("throw new %s(%s);", "throw %s(%s);", "(function () { throw new %s(%s); })();", "[1].forEach(function () { throw new %s(%s); });"):
                cases.append({"id": h(["usermsg", cls, msg, form]), "fam": "message", "ident": ["constructed", cls, msg],
                              "src": "try { %s } catch (e) { log(e.name, e.message); }\nlog('END');\n'x';" % (form % (cls, json.dumps(msg)))})
    ctxs = ["stmt", "right+", "arg0", "prop", "member-callee"] if ctx.quick else list(skel.CONTEXTS)
    for ident, src in skel.enumerate_skeletons(depth2=True, contexts=ctxs):
        if ident[0] in TRYISH or ident[1] in TRYISH:
            cases.append({"id": h(["skel", ident]), "fam": "skel", "ident": list(ident), "src": src})
    cases += functions_in_try(ctx.quick, ctx.seed)
    rng = random.Random(ctx.seed)
    nrand = 1500 if ctx.quick else 40000
    fixed = random.Random(777)
    for i in range(400):
        cases.append({"id": h(["tt-fixed", i]), "fam": "trytree", "ident": ["fixed", i], "src": try_tree_program(fixed)})
    for i in range(nrand):
        cases.append({"id": h(["tt", ctx.seed, i]), "fam": "trytree", "ident": ["rnd", i], "src": try_tree_program(rng)})
    # shift metamorphic
    shifts = []
    for sp in SHIFT_PROGS:
        name, src = sp[0], sp[1]
        marker = sp[2] if len(sp) > 2 else "throw"
        stmt_marker = sp[3] if len(sp) > 3 else None     # start of the statement the erroring expression belongs to: an accepted location too
        for k in (0, 1, 7, 100):
            shifts.append({"id": h(["shiftl", name, k]), "name": name, "kind": "line", "k": k, "src": "\n" * k + src,
                           "marker": marker, "stmt_marker": stmt_marker})
        lines = src.split("\n")
        ti = [i for i, l in enumerate(lines) if marker in l][0]
        for k in (1, 7, 100):
            l2 = list(lines)
            l2[ti] = " " * k + l2[ti]
            if stmt_marker:
                si = [i for i, l in enumerate(lines) if stmt_marker in l][0]
                if si != ti:
                    l2[si] = " " * k + l2[si]
            shifts.append({"id": h(["shiftc", name, k]), "name": name, "kind": "col", "k": k, "src": "\n".join(l2),
                           "marker": marker, "stmt_marker": stmt_marker})
    lrng = random.Random(ctx.seed * 13 + 5)
    lochist = []
    for i in range(150 if ctx.quick else 2500):
        pre, calls = location_history(lrng)
        tail = "\nlog(out);"
        lochist.append({"hist": i, "role": "history", "calls": [c[0] for c in calls], "src": pre + "\n".join(c[1] for c in calls) + tail})
        seen_iso = set()
        for nm, c in calls:
            if (nm, c) in seen_iso:
                continue
            seen_iso.add((nm, c))
            lochist.append({"hist": i, "role": "alone", "call": c, "src": pre + c + tail})
    ep = engine_pool()
    np_ = node_pool() if have_node() else None
    if np_ is None:
        ctx.inconclusive_because("reference_unavailable: node missing (exactly-once and shift monitors still ran)")
    try:
        pairs = diff.run_cases(ep, np_, cases, opts={"max_steps": 100000})
        sres = ep.map({"mod": "vf.engine", "fn": "w_run", "opts": {}}, [{"src": c["src"]} for c in shifts], batch=10)
        lres = ep.map({"mod": "vf.engine", "fn": "w_run", "opts": {}}, [{"src": c["src"]} for c in lochist], batch=20)
    finally:
        ep.close()
        if np_:
            np_.close()
    rec = open(ctx.record_path, "w") if getattr(ctx, "record_path", None) else None
    fams = {}
    acts_total = 0
    thrown_paths = 0
    for c, (e, n) in zip(cases, pairs):
        ctx.count()
        fams[c["fam"]] = fams.get(c["fam"], 0) + 1
        if e is None or "log" not in e:
            ctx.violation(("engine-failed", c["fam"]), {"case": c, "detail": e})
            continue
        tags = [x[0][1] for x in e["log"] if x and x[0][0] == "s"]
        if any(t in ("caught", "C", "outer", "inner", "c1", "c2", "escaped") or t.startswith("c") for t in tags):
            ctx.nontrivial(c["id"])
            thrown_paths += 1
        problems = []
        if c["fam"] == "trytree":
            probs, acts = check_exactly_once(e["log"])
            acts_total += len(acts)
            problems += ["exactly-once: " + p for p in probs]
        why = diff.cmp_full(e, n)
        if why:
            problems.append("differential: " + why)
        # uncaught throws must surface as JSError describing the value
        if e["out"] == "hosterr":
            problems.append("host exception escaped: %s" % (e["err"].get("cls")))
        if n is not None and n.get("err") and e["out"] == "jserr":
            want = n["err"].get("msg") if n["err"].get("msg") is not None else None
            thrown = n["err"].get("thrown")
            msg = e["err"].get("msg", "")
            if want is not None and want not in msg and c["fam"] == "site" and c["ident"][0].startswith("throw-"):
                problems.append("uncaught error text %r lacks the thrown message %r" % (msg, want))
            if thrown and thrown[0] == "s" and thrown[1] not in msg:
                problems.append("uncaught primitive %r not described in %r" % (thrown[1], msg))
        if not problems:
            continue
        oh = h([diff.full_key(e), sorted(problems)], 10)
        if ctx.known_cell(c["id"], oh):
            continue
        if rec:
            rec.write(json.dumps({"cid": c["id"], "fam": c["fam"], "ident": c["ident"], "why": problems, "obs": oh,
                                  "src": c["src"], "eng": diff.full_key(e), "ref": n}) + "\n")
        ctx.violation((c["fam"], problems[0].split(":")[0], tuple(c["ident"][:3]) if c["fam"] != "trytree" else c["id"]),
                      {"case": c, "problems": problems, "observed": diff.full_key(e), "expected": n})
    # shift oracle
    base = {}
    for c, r in zip(shifts, sres):
        ctx.count()
        loc = None
        if r and r.get("log"):
            arr = r["log"][0][0]
            if arr[0] == "a":
                loc = [num(x) if x[0] == "d" else None for x in arr[2]]
        if c["k"] == 0:
            base[c["name"]] = loc
    for c, r in zip(shifts, sres):
        if c["k"] == 0:
            continue
        b = base.get(c["name"])
        loc = None
        if r and r.get("log"):
            arr = r["log"][0][0]
            if arr[0] == "a":
                loc = [num(x) if x[0] == "d" else None for x in arr[2]]
        prob = None
        src_lines = c["src"].split("\n")
        tl = [i for i, l in enumerate(src_lines) if c["marker"] in l][0]
        want = [tl + 1, src_lines[tl].index(c["marker"]) + 1]
        wants = [want]
        if c.get("stmt_marker"):
            sl = [i for i, l in enumerate(src_lines) if c["stmt_marker"] in l][0]
            wants.append([sl + 1, src_lines[sl].index(c["stmt_marker"]) + 1])
        if not b or None in b:
            prob = "base location is not numeric: %r" % (b,)
        elif loc and loc not in wants:
            prob = "location %r is neither the erroring expression's nor its statement's position %r" % (loc, wants)
        elif not loc or None in loc:
            prob = "shifted location is not numeric: %r" % (loc,)
        elif c["kind"] == "line" and (loc[0] != b[0] + c["k"] or loc[1] != b[1]):
            prob = "shift by %d lines: %r -> %r" % (c["k"], b, loc)
        elif c["kind"] == "col" and (loc[0] != b[0] or loc[1] != b[1] + c["k"]):
            prob = "shift by %d columns: %r -> %r" % (c["k"], b, loc)
        if prob is None:
            ctx.nontrivial(c["id"])
            continue
        if ctx.known_cell(c["id"], h(prob, 10)):
            continue
        if rec:
            rec.write(json.dumps({"cid": c["id"], "fam": "shift", "ident": [c["name"], c["kind"], c["k"]], "why": [prob],
                                  "obs": h(prob, 10), "src": c["src"]}) + "\n")
        ctx.violation(("shift", c["name"], c["kind"]), {"case": c, "problem": prob})
    # location histories: what each call reports in the history must be what the same call reports alone in the same source prefix
    def outlist(r):
        if not r or r.get("out") != "ok" or not r.get("log"):
            return None
        arr = r["log"][0][0]
        if arr[0] != "a":
            return None
        res = []
        for ent in arr[2]:
            if ent[0] != "a":
                return None
            res.append([x[1] if x[0] == "s" else (num(x) if x[0] == "d" else x[0]) for x in ent[2]])
        return res
    alone = {}
    loc_compared = 0
    for c, r in zip(lochist, lres):
        if c["role"] == "alone":
            alone[(c["hist"], c["call"])] = outlist(r)
    hist_src = {}
    for c, r in zip(lochist, lres):
        if c["role"] != "history":
            continue
        ctx.count()
        got = outlist(r)
        if got is None:
            ctx.violation(("location-history", "history-program-failed"), {"case": c, "observed": str(r)[:600]})
            continue
        # re-derive the call statements from the source tail
        pre_lines = c["src"].split("\n")
        ncalls = len(c["calls"])
        call_stmts = pre_lines[-(ncalls + 1):-1]
        exp = []
        for st in call_stmts:
            a = alone.get((c["hist"], st))
            if a is None:
                exp = None
                break
            exp += a
        if exp is None:
            ctx.violation(("location-history", "isolated-program-failed"), {"case": c})
            continue
        loc_compared += len(exp)
        if got != exp:
            bad = [i for i, (x, y) in enumerate(zip(got, exp)) if x != y]
            ctx.violation(("location-history", "location-depends-on-earlier-throws"),
                          {"case": c, "reported_in_history": got, "reported_by_each_call_alone": exp, "first_difference_at_call": bad[:1],
                           "monitor": "metamorphic: same source prefix, the call alone vs in a sequence of earlier throws"})
        elif any(isinstance(x[1], int) for x in got):
            ctx.nontrivial(("lochist", c["hist"]))
    ctx.cov["location_history_entries_compared"] = loc_compared
    if rec:
        rec.close()
    if thrown_paths == 0:
        ctx.inconclusive_because("no case reached a catch clause")
    ctx.cov["rule"] = ("{throw site (statement values of every type, runtime errors, raising built-ins, code run by built-ins)} x "
                       "{handler placement incl. across native frames, rethrow, finally variants, expression context, none}; "
                       "try-ish cells of the skeleton grid; instrumented random try trees checked by an offline exactly-once "
                       "checker; shifted programs; non-trivial = a catch clause or exception path was reached")
    ctx.cov["families"] = fams
    ctx.cov["try_activations_checked_exactly_once"] = acts_total
    ctx.cov["cases_reaching_a_handler"] = thrown_paths
    ctx.cov["shift_cases"] = len(shifts)
    for c in (cases[1], cases[len(THROW_SITES) * len(HANDLERS) + 3], cases[-1]):
        ctx.sample({"fam": c["fam"], "ident": c["ident"], "src": c["src"][:1500]})
    ctx.assumptions += ["node v20 is the reference for unwinding order; error messages are compared only for user-constructed errors"]
