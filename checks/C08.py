"""C08 — objects, prototypes, functions and `this` behave as specified.

Monitors: (1) node differential after EVERY step of generated object-model histories: reads, `in`, own-test,
keys/values/entries, prototype identity, instanceof, isPrototypeOf over all live objects; (2) internal agreement
(needs no reference): k in o <=> own or inherited along getPrototypeOf; keys = own enumerable = hasOwnProperty-true
set; values/entries consistent with reads; (3) exhaustive call-form x function-kind table observing this, arguments,
length, name and new's return handling.
"""
import itertools
import json
import random

from vf import diff
from vf.common import h
from vf.runner import engine_pool, have_node, node_pool

KEYS = ["a", "b", "k1", "x y", "acc", "m", "zz", "sink"]     # sink: written by setters, never made an accessor (no setter cycles)
PRELUDE = r"""
var OBJS = []; var CTORS = []; var KEYS = %s;
function SV(v) { return typeof v === 'function' ? 'fn' : (typeof v === 'object' && v !== null ? 'obj' : (v === undefined ? '?' : v)); }
function own(o, k) { return Object.prototype.hasOwnProperty.call(o, k); }
function OBS() {
  var out = [];
  for (var i = 0; i < OBJS.length; i++) {
    var o = OBJS[i]; var row = [];
    for (var j = 0; j < KEYS.length; j++) {
      var k = KEYS[j]; var v;
      try { v = o[k]; } catch (e) { v = 'THROW:' + e.name; }
      row.push([typeof v === 'function' ? 'fn' : (typeof v === 'object' && v !== null ? 'obj#' + OBJS.indexOf(v) : v), k in o, own(o, k)]);
    }
    var ks = Object.keys(o);
    row.push(ks);
    row.push(typeof o === 'function' || (Object.values(o).length === ks.length && Object.entries(o).length === ks.length));   // functions: pinned finding function-receiver-in-object-statics
    var veAgree = true;
    if (typeof o !== 'function') {
      var vs = Object.values(o), es = Object.entries(o);
      for (var z = 0; z < ks.length; z++) {
        var direct; try { direct = o[ks[z]]; } catch (e) { direct = 'THROW'; }
        if (direct !== 'THROW' && (es[z][0] !== ks[z] || !(vs[z] === direct || (vs[z] !== vs[z] && direct !== direct)) || !(es[z][1] === direct || (es[z][1] !== es[z][1] && direct !== direct)))) { veAgree = false; }
      }
    }
    row.push(veAgree);
    var agree = true;
    for (var q = 0; q < ks.length; q++) { if (!own(o, ks[q]) || !(ks[q] in o)) { agree = false; } }
    row.push(agree);
    var fi = []; for (var kk in o) { if (own(o, kk)) { fi.push(kk); } }
    row.push(fi.join('|') === ks.join('|'));
    var p = Object.getPrototypeOf(o);
    row.push(p === null ? 'null' : (p === Object.prototype ? 'Object.prototype' : OBJS.indexOf(p)));
    var chain = 0; var w = o; var inChain = [];
    while (w !== null && chain < 10) { w = Object.getPrototypeOf(w); chain++; }
    row.push(chain);
    for (var c = 0; c < CTORS.length; c++) { row.push(o instanceof CTORS[c]); }
    for (var t = 0; t < OBJS.length; t++) { row.push(Object.prototype.isPrototypeOf.call(OBJS[t], o)); }
    out.push(row);
  }
  // the constructors themselves: each has a prototype object of its own whose constructor is that function
  var crow = [];
  for (var c1 = 0; c1 < CTORS.length; c1++) {
    var P = CTORS[c1].prototype;
    var same = [];
    for (var c2 = 0; c2 < CTORS.length; c2++) { same.push(P === CTORS[c2].prototype); }
    crow.push([typeof P, P !== null && typeof P === 'object' ? P.constructor === CTORS[c1] : 'n/a', P !== null && typeof P === 'object' ? Object.keys(P).filter(function (kq) { return kq !== 'constructor'; }) : [], OBJS.indexOf(P), same]);
  }
  out.push(crow);
  log(out);
}
function MKCTOR(tag) { return function KF(v) { this.a = v; this.tag = tag; }; }
""" % json.dumps(KEYS)


class HG:
    def __init__(self, rng, avoid=()):
        self.r = rng
        self.n = 0
        self.nctor = 0
        self.avoid = set(avoid)
        self.fns = set()        # indices of OBJS that are function objects

    dp = 0

    def obj(self):
        return "OBJS[%d]" % self.r.randrange(self.n)

    def plain(self, upto=None):
        """an object that is not a function (functions as prototypes / statics targets are a pinned finding)"""
        c = [i for i in range(self.n if upto is None else upto) if i not in self.fns]
        return "OBJS[%d]" % self.r.choice(c)

    def key(self):
        return self.r.choice(KEYS)

    def keyexpr(self, k):
        f = self.r.random()
        if f < 0.4 and " " not in k:
            return "." + k
        if f < 0.7:
            return "[%s]" % json.dumps(k)
        return "[%s + %s]" % (json.dumps(k[:1]), json.dumps(k[1:]))

    def step(self):
        r = self.r.random()
        if self.n == 0 or (r < 0.22 and self.n < 5):
            kind = self.r.random()
            self.n += 1
            if kind < 0.3 or self.n == 1:
                return "OBJS.push({%s: %d, b: 'lit'});" % (self.r.choice(["a", "k1", "zz"]), self.r.randint(1, 9))
            if kind < 0.55:
                return "OBJS.push(Object.create(%s));" % self.plain(self.n - 1)
            if kind < 0.62:
                return "OBJS.push(Object.create(null));"
            if kind < 0.66 and "computed-literal" not in self.avoid:
                k = self.key()
                return "OBJS.push({[%s + %s]: %d, [%s]: 'c'});" % (json.dumps(k[:1]), json.dumps(k[1:]), self.r.randint(1, 9), json.dumps(self.key()))
            if kind < 0.69 and "fn-receiver" not in self.avoid:
                self.fns.add(self.n - 1)
                return "OBJS.push(function (p, q) { return p; });"
            if kind < 0.72 and "create-props" not in self.avoid:
                return "OBJS.push(Object.create(%s, {%s: {value: %d, enumerable: true, writable: true, configurable: true}}));" % (
                    self.plain(self.n - 1), self.r.choice(["a", "zz", "k1"]), self.r.randint(1, 9))
            if kind < 0.85 and self.nctor and "ctor" not in self.avoid:
                return "OBJS.push(new CTORS[%d](%d));" % (self.r.randrange(self.nctor), self.r.randint(1, 9))
            return "OBJS.push({get acc() { return 'G' + SV(this.a); }, set acc(v) { this.sink = v; }, m: function () { return this.b; }});"
        if r < 0.30 and self.nctor < 4 and "ctor" not in self.avoid:
            self.nctor += 1
            i = self.nctor - 1
            k = self.r.random()
            if k < 0.25 and "ctor-factory" not in self.avoid:
                # constructors that are closures of ONE function definition (a factory, a loop): still one prototype object each
                if self.r.random() < 0.5:
                    return "CTORS.push(MKCTOR(%d)); CTORS[%d].prototype.m = function () { return 'mk%d' + SV(this.a); };" % (i, i, i)
                self.nctor += 1
                return ("for (var fi_ = 0; fi_ < 2; fi_++) { CTORS.push(function KL(v) { this.zz = v; }); } CTORS[%d].prototype.k1 = 'loop%d';" % (i, i))
            if k < 0.4 or self.n == 0:
                return "CTORS.push(function K%d(v) { this.a = v; }); CTORS[%d].prototype.m = function () { return 'm' + SV(this.a); };" % (i, i)
            if k < 0.7:
                return "CTORS.push(function K%d(v) { this.k1 = v; }); CTORS[%d].prototype = %s;" % (i, i, self.plain())
            return ("CTORS.push(function K%d(v) { this.zz = v; }); CTORS[%d].prototype = Object.create(CTORS[%d].prototype); "
                    "CTORS[%d].prototype.constructor = CTORS[%d];" % (i, i, self.r.randrange(max(1, i)) if i else 0, i, i)) if i else \
                "CTORS.push(function K0(v) { this.zz = v; });"
        o = self.obj()
        k = self.key()
        if int(o[5:-1]) in self.fns and r >= 0.60 and r < 0.88:
            r = 0.3     # Object.defineProperty/setPrototypeOf/assign with a function target: pinned finding, keep random histories clear of it
        if r < 0.50:
            return "try { %s%s = %s; } catch (e) { log('set-threw', e.name); }" % (o, self.keyexpr(k), self.r.choice(["1", "'s'", "null", "undefined", self.obj(), "function () { return 7; }"]))
        if r < 0.60:
            return "log('del', delete %s%s);" % (o, self.keyexpr(k))
        if r < 0.70:
            kk = json.dumps(k if k != "sink" else "zz")
            if "descriptor-shapes" in self.avoid:
                return "Object.defineProperty(%s, %s, {get: function () { return 'dp:' + SV(this.b); }, set: function (v) { this.sink = v; }, enumerable: true, configurable: true});" % (o, kk)
            self.dp += 1
            g = "get: function () { return 'dp%d:' + SV(this.b); }" % self.dp
            st = "set: function (v) { this.sink = 'dp%d>' + SV(v); }" % self.dp
            shape = self.r.choice([g + ", " + st, g + ", " + st, g, st, g, st, g + ", set: undefined", "get: undefined, " + st,
                                   "value: %d, writable: true" % self.dp, "value: 'v%d', writable: true" % self.dp])
            return "try { Object.defineProperty(%s, %s, {%s, enumerable: true, configurable: true}); } catch (e) { log('dp-threw', e.name); }" % (o, kk, shape)
        if r < 0.80:
            target = self.obj()
            proto = self.r.choice([self.plain(), "null", "Object.prototype"])
            # keep the prototype graph acyclic: only link to an object created earlier
            ti = int(target[5:-1])
            if ti in self.fns:
                return "log('skip');"
            if proto.startswith("OBJS"):
                pi = int(proto[5:-1])
                if pi >= ti:
                    return "log('skip');"
            return "Object.setPrototypeOf(%s, %s);" % (target, proto)
        if r < 0.88:
            return "Object.assign(%s, %s, {b: 'assigned'});" % (o, self.plain())     # (a function as source: pinned finding)
        if r < 0.94:
            return "log('call', (function () { try { return %s.m(); } catch (e) { return 'THROW:' + e.name; } })());" % o
        return "log('read', (function () { try { return %s%s; } catch (e) { return 'THROW:' + e.name; } })());" % (o, self.keyexpr(k))


def history(rng, length, avoid=()):
    g = HG(rng, avoid)
    lines = [PRELUDE]
    for _ in range(length):
        lines.append(g.step())
        lines.append("OBS();")
    lines.append("'done'")
    return "\n".join(lines)


# ---------------- call-form x function-kind table -----------------------------------------------------
KINDS = {
    "declaration": "function f(a, b) { return [tag(this), arguments.length, arguments[0], arguments[1], a, b]; }",
    "expression": "var f = function (a, b) { return [tag(this), arguments.length, arguments[0], arguments[1], a, b]; };",
    "named-expression": "var f = function inner(a, b) { return [tag(this), arguments.length, typeof inner, a, b]; };",
    "arrow": "var f = (function () { return (a, b) => [tag(this), a, b]; }).call(LEX);",
    "method-shorthand": "var holder = {f(a, b) { return [tag(this), arguments.length, a, b]; }}; var f = holder.f;",
    "bound": "var f = (function (a, b) { return [tag(this), arguments.length, a, b]; }).bind(BOUND, 'pre');",
    "returns-object": "function f(a) { this.v = a; return {replaced: true}; }",
    "returns-primitive": "function f(a) { this.v = a; return 5; }",
    "ctor-with-proto": "function f(a) { this.v = a; } f.prototype.pm = function () { return 'pm' + this.v; };",
    "bound-ctor": "function Base(a, b) { this.v = a; this.w = b; this.t = tag(this); } Base.prototype.pm = function () { return 'pm' + this.v; }; var f = Base.bind(BOUND, 'pre');",
    "bound-twice-ctor": "function Base(a, b) { this.v = a; this.w = b; } Base.prototype.pm = function () { return 'pm' + this.w; }; var f = Base.bind(BOUND, 'p1').bind(T, 'p2');",
    "returns-function": "function f(a) { this.v = a; return function inner() { return 'inner'; }; }",
    "prototype-null": "function f(a) { this.v = a; } f.prototype = null;",
    "prototype-primitive": "function f(a) { this.v = a; } f.prototype = 5;",
    "prototype-replaced": "function f(a) { this.v = a; } f.prototype = {pm: function () { return 'replaced' + this.v; }};",
}
FORMS = {
    "plain": "f(1, 2)",
    "method": "var o = {id: 'O', f: f}; o.f(1, 2)",
    "method-bracket": "var o = {id: 'O', f: f}; o['f'](1, 2)",
    "call": "f.call(T, 1, 2)",
    "call-null": "f.call(null, 1)",
    "call-primitive": "f.call(5, 1)",
    "apply": "f.apply(T, [1, 2])",
    "apply-none": "f.apply(T)",
    "bind": "f.bind(T, 1)(2)",
    "bind-twice": "f.bind(T).bind(BOUND)(1, 2)",
    "new": "var n = new f(1, 2); [tag(n), n instanceof f, n.v, n.replaced, typeof n.pm, Object.getPrototypeOf(n) === f.prototype]",
    "new-details": "var n = new f(1, 2); [typeof n, n.v, n.w, n.t, typeof n.pm === 'function' ? n.pm() : 'no-pm', Object.getPrototypeOf(n) === Object.prototype, typeof Base === 'function' ? [n instanceof Base, Object.getPrototypeOf(n) === Base.prototype, new Base(0) instanceof f] : 'no-base', BOUND.v, T.v]",
    "new-noargs": "var n = new f; [tag(n), n instanceof f]",
    "callback": "[10].map(f)[0]",
    "callback-thisArg": "[10].forEach(function (v) { RES = f.call(this, v); }, T); RES",
    "detached": "var o = {id: 'O', f: f}; var g = o.f; g(1, 2)",
    "comma": "var o = {id: 'O', f: f}; (0, o.f)(1, 2)",
    "length-name": "[f.length, f.name, typeof f, typeof f.prototype]",
    "extra-args": "f(1, 2, 3, 4)",
    "fewer-args": "f(1)",
}
TABLE_PRE = ("var T = {id: 'T'}, BOUND = {id: 'BOUND'}, LEX = {id: 'LEX'}, RES;\n"
             "function tag(x) { if (x === undefined) return 'undefined'; if (x === null) return 'null'; if (x === T) return 'T'; if (x === BOUND) return 'BOUND'; "
             "if (x === LEX) return 'LEX'; if (typeof x === 'object' && x.id) return 'obj:' + x.id; return typeof x; }\n")


def table_progs():
    progs = []
    for kn, ksrc in KINDS.items():
        for fn, fsrc in FORMS.items():
            src = TABLE_PRE + ksrc + "\n(function () { try { " + (fsrc if ";" not in fsrc else fsrc.rsplit("; ", 1)[0] + "; return " + fsrc.rsplit("; ", 1)[1]) + " } catch (e) { return ['THROW', e.name]; } })()"
            if ";" not in fsrc:
                src = TABLE_PRE + ksrc + "\n(function () { try { return " + fsrc + "; } catch (e) { return ['THROW', e.name]; } })()"
            progs.append(((kn, fn), src))
    return progs



def borrowed_builtin_probes():
    """Built-in methods reached through call/apply/bind (or a detached reference) with a receiver
    other than the value they were read from: this is bound by the call form for these too."""
    grid = [
        ("array", ["Array.prototype", "[9, 8]"], ["[1, 2, 3]", "['b', 'a']", "arguments"],
         [("slice", "1"), ("join", "'-'"), ("indexOf", "2"), ("concat", "[7]"), ("includes", "'a'"),
          ("map", "function (x) { return x + x; }"), ("filter", "function (x, i) { return i > 0; }"),
          ("reverse", ""), ("push", "5"), ("pop", "")]),
        ("string", ["'abc'", "''"], ["'xyz'", "' Ab '"],
         [("charAt", "1"), ("toUpperCase", ""), ("slice", "1"), ("indexOf", "'b'"), ("trim", ""),
          ("split", "''"), ("replace", "'b', 'Q'"), ("charCodeAt", "0"), ("concat", "'!'")]),
        ("number", ["(1)", "(0.5)"], ["255", "1.5"], [("toFixed", "1"), ("toString", "16"), ("toString", "")]),
        ("regexp", ["/a/", "/zz/g"], ["/b/", "/(y)/"], [("test", "'xby'"), ("exec", "'xby'"), ("toString", "")]),
    ]
    out = []
    for kind, sources, receivers, methods in grid:
        for si, srcv in enumerate(sources):
            for ri, recv in enumerate(receivers):
                for m, a in methods:
                    if recv == "arguments" and m in ("concat", "reverse"):
                        continue    # their results contain the arguments object itself (C03 finding arguments-is-array)
                    comma = ", " if a else ""
                    forms = {
                        "call": "SRC.%s.call(r%s%s)" % (m, comma, a),
                        "apply": "SRC.%s.apply(r, [%s])" % (m, a),
                        "bind": "SRC.%s.bind(r)(%s)" % (m, a),
                        "detached-call": "(function () { var m = SRC.%s; return m.call(r%s%s); })()" % (m, comma, a),
                    }
                    for fname, expr in forms.items():
                        body = "var r = %s; var out = %s; return [out, typeof r === 'object' && typeof r.length === 'number' ? [r.length, r[0], r[1], r[2], r[3]] : String(r)];" % (recv, expr.replace("SRC", srcv))
                        src = "(function () { %s })(4, 'a', 2)" % body
                        out.append(("borrowed-%s-%s-%s-s%d-r%d-%s" % (kind, m, "args" if a else "noargs", si, ri, fname), src))
    return out


EXTRA = [
    ("proto-chain-read", "function A() {} A.prototype.x = 1; function B() {} B.prototype = Object.create(A.prototype); var b = new B(); [b.x, 'x' in b, b.hasOwnProperty('x'), b instanceof A, b instanceof B, A.prototype.isPrototypeOf(b)]"),
    ("write-shadows", "var p = {x: 1}; var c = Object.create(p); c.x = 2; [p.x, c.x, Object.keys(c), Object.keys(p)]"),
    ("delete-unshadows", "var p = {x: 1}; var c = Object.create(p); c.x = 2; delete c.x; [c.x, 'x' in c, c.hasOwnProperty('x'), delete c.x, p.x]"),
    ("inherited-getter-receiver", "var p = {get who() { return this.name; }}; var c = Object.create(p); c.name = 'child'; p.name = 'parent'; [c.who, p.who]"),
    ("inherited-setter-receiver", "var p = {set v(x) { this.stored = x; }}; var c = Object.create(p); c.v = 5; [c.stored, p.stored, Object.keys(c), c.hasOwnProperty('v')]"),
    ("keys-literal-accessor-then-data", "[Object.keys({get a() { return 1; }, b: 1, a: 2}), Object.keys({a: 1, get b() { return 1; }, set a(v) { }}), JSON.stringify({get a() { return 1; }, b: 1, a: 2})]"),
    ("keys-values-entries-of-array-and-string", "var a = [5, 6]; a.x = 1; [Object.keys(a), Object.values(a), Object.entries(a), Object.keys('ab'), Object.values('ab'), Object.entries([7]), Object.keys([])]"),
    ("arrow-arguments-lexical", "function outer() { var f = () => arguments.length; var g = function () { return arguments.length; }; return [f(1, 2, 3), g(1, 2, 3), arguments[0]]; } outer('a', 'b')"),
    ("keys-after-delete-and-readd", "var o = {a: 1, b: 2, c: 3}; delete o.a; o.a = 4; Object.defineProperty(o, 'b', {get: function () { return 9; }, enumerable: true, configurable: true}); [Object.keys(o), JSON.stringify(o)]"),
    ("defineProperty-value", "var o = {}; Object.defineProperty(o, 'k', {value: 3, enumerable: true, writable: true, configurable: true}); [o.k, Object.keys(o), 'k' in o]"),
    ("getOwnPropertyDescriptor", "var o = {a: 1, get g() { return 2; }}; var d = Object.getOwnPropertyDescriptor(o, 'a'); var e = Object.getOwnPropertyDescriptor(o, 'g'); [d.value, d.writable, typeof e.get, e.value, Object.getOwnPropertyDescriptor(o, 'zz')]"),
    ("prototype-mutation-visible", "function F() {} var x = new F(); F.prototype.late = 'L'; [x.late, 'late' in x, x.hasOwnProperty('late')]"),
    ("prototype-replacement", "function F() {} var x = new F(); F.prototype = {neu: 1}; var y = new F(); [x.neu, y.neu, x instanceof F, y instanceof F]"),
    ("constructor-property", "function F() {} var x = new F(); [x.constructor === F, F.prototype.constructor === F, ({}).constructor === Object, [].constructor === Array]"),
    ("function-properties", "function f() {} f.x = 1; f.y = {z: 2}; [f.x, f.y.z, 'x' in f, Object.keys(f), typeof f.call, f.hasOwnProperty('x')]"),
    ("static-method", "function F() {} F.make = function () { return new F(); }; [F.make() instanceof F, typeof F.make]"),
    ("in-operator", "var p = {inh: 1}; var o = Object.create(p); o.own = 2; ['own' in o, 'inh' in o, 'no' in o, 'toString' in o, 'length' in [], 0 in [1], 1 in [1], 'acc' in {get acc() { return 1; }}]"),
    ("object-create-props", "var o = Object.create({base: 1}, {k: {value: 2, enumerable: true}}); [o.k, o.base, Object.keys(o)]"),
    ("setPrototypeOf", "var a = {x: 1}, b = {y: 2}; Object.setPrototypeOf(a, b); [a.y, Object.getPrototypeOf(a) === b, 'y' in a, Object.keys(a)]"),
    ("getPrototypeOf-kinds", "[Object.getPrototypeOf({}) === Object.prototype, Object.getPrototypeOf([]) === Array.prototype, Object.getPrototypeOf(Object.create(null)), Object.getPrototypeOf(Object.prototype)]"),
    ("assign", "var t = {a: 1}; var r = Object.assign(t, {b: 2}, null, {a: 3}); [r === t, t.a, t.b, Object.keys(t)]"),
    ("this-in-nested", "var o = {v: 1, f: function () { var self = this; function inner() { return tag2(this); } return [inner(), (() => this.v)(), self.v]; }}; function tag2(x) { return x === undefined ? 'undefined' : typeof x; } o.f()"),
    ("arguments-object", "function f(a) { arguments[0] = 9; return [a === 9 || a === 1, arguments.length, typeof arguments, arguments[5]]; } f(1, 2)"),
    ("new-target-chain", "function A(v) { this.a = v; } function B(v) { A.call(this, v); this.b = v * 2; } B.prototype = Object.create(A.prototype); B.prototype.constructor = B; var x = new B(2); [x.a, x.b, x instanceof A, x.constructor === B]"),
    ("method-on-prototype-this", "function P(n) { this.n = n; } P.prototype.get = function () { return this.n; }; var a = new P(1), b = new P(2); [a.get(), b.get(), a.get === b.get, a.get.call(b)]"),
    ("fn-statics-assign-define", "function f() {} Object.assign(f, {a: 1}); Object.defineProperty(f, 'd', {value: 2, enumerable: true}); [f.a, f.d, Object.keys(f)]"),
    ("fn-statics-assign-source", "function f() {} f.own = 1; var t = Object.assign({}, f); [t.own, Object.keys(t)]"),
    ("fn-statics-values-entries", "function f() {} f.a = 1; [Object.keys(f), Object.values(f).length, Object.entries(f).length]"),
    ("fn-statics-setPrototypeOf", "function f() {} var p = {inh: 3}; Object.setPrototypeOf(f, p); [f.inh, Object.getPrototypeOf(f) === p, typeof f.call]"),
    ("fn-as-prototype", "function f() {} f.shared = 1; var o = Object.create(f); function K() {} K.prototype = f; [o.shared, Object.getPrototypeOf(o) === f, new K().shared]"),
    ("computed-literal-keys", "var k = 'z', n = 1; var o = {[k]: 1, [k + n]: 2, ['lit']: 3, get [k + 'g']() { return this.z; }, [k + 'm']() { return 4; }}; [o.z, o.z1, o.lit, o.zg, o.zm(), Object.keys(o), 'k' in o]"),
    ("accessor-shadowing", "var p = {get g() { return 'PG'; }, set g(v) { this.hit = v; }, d: 'PD'}; var c = Object.create(p); Object.defineProperty(c, 'g', {value: 'own', writable: true, enumerable: true, configurable: true}); "
                           "var e = Object.create(p); Object.defineProperty(e, 'd', {get: function () { return 'EG'; }, configurable: true, enumerable: true}); c.g = 'w'; [c.g, c.hit, p.g, e.d, p.d, Object.keys(c), Object.keys(e)]"),
    ("redefine-kind", "var o = {k: 1}; Object.defineProperty(o, 'k', {get: function () { return 'G'; }, configurable: true, enumerable: true}); var a = o.k; Object.defineProperty(o, 'k', {value: 'V', writable: true, configurable: true, enumerable: true}); [a, o.k, Object.keys(o), JSON.stringify(o)]"),
    ("function-chain", "function f() {} [f instanceof Function, f instanceof Object, Object.getPrototypeOf(f) === Function.prototype, Object.getPrototypeOf(Function.prototype) === Object.prototype, Function.prototype.isPrototypeOf(f), typeof f.hasOwnProperty]"),
    ("primitive-receiver-write", "var r = []; function w(v) { try { v.p = 1; r.push('ok'); } catch (e) { r.push(e.name); } } w(5); w('s'); w(true); w({}); w([]); w(function () {}); r"),
    ("method-not-constructor", "var o = {m() { return 1; }, f: function () {}}; var r = []; try { new o.m(); r.push('constructed'); } catch (e) { r.push(e.name); } r.push(typeof o.m.prototype, typeof o.f.prototype, typeof new o.f()); r"),
    ("names", "var a = function () {}, b = () => 1, o = {c: function () {}, d() {}, 'e f': () => 2}, g; g = function () {}; function h() {} [a.name, b.name, o.c.name, o.d.name, o['e f'].name, g.name, h.name, h.bind(null).name, (function () {}).name, [function () {}][0].name]"),
    ("instanceof-rhs", "var r = []; try { r.push(({}) instanceof Object); r.push([] instanceof Object); r.push(Object.create(null) instanceof Object); r.push((function () {}) instanceof Object); } catch (e) { r.push(e.name); } r"),
    ("typeof-table", "[typeof {}, typeof [], typeof null, typeof function () {}, typeof (() => 1), typeof Object, typeof Math, typeof undefined, typeof /r/, typeof new Error('x')]"),
    ("name-length", "function decl(a, b, c) {} var ex = function () {}; var nx = function named(a) {}; var ar = (a, b) => a; [decl.name, decl.length, ex.name, nx.name, nx.length, ar.length]"),
    ("valueOf-toString-inherited", "var o = {}; [typeof o.toString, typeof o.valueOf, o.toString(), o.valueOf() === o, String(Object.create({toString: function () { return 'custom'; }}))]"),
]


def main(ctx):
    rng = random.Random(ctx.seed)
    fixed = random.Random(808)
    if not have_node():
        ctx.inconclusive_because("reference_unavailable: node missing")
        return
    cases = []
    for ident, src in table_progs():
        cases.append({"id": h(["table", ident]), "fam": "call-table", "ident": list(ident), "src": src})
    for name, src in EXTRA:
        cases.append({"id": h(["extra", name]), "fam": "extra", "ident": [name], "src": "function tag(x) { return typeof x; }\n" + src})
    for name, src in borrowed_builtin_probes():
        cases.append({"id": h(["borrowed", name]), "fam": "borrowed-builtin", "ident": [name], "src": src})
    nh = 2000 if ctx.quick else 15000
    for i in range(nh):
        r = fixed if i % 2 == 0 else rng
        cases.append({"id": h(["hist", r is fixed, i]), "fam": "history", "ident": ["fixed" if r is fixed else "rnd", i], "src": history(r, r.randint(4, 14))})
    ep, np_ = engine_pool(), node_pool()
    try:
        pairs = diff.run_cases(ep, np_, cases, opts={"max_steps": 400000, "max_log": 200})
    finally:
        ep.close(); np_.close()
    rec = open(ctx.record_path, "w") if getattr(ctx, "record_path", None) else None
    fams = {}
    steps = 0
    for c, (e, n) in zip(cases, pairs):
        ctx.count()
        st = fams.setdefault(c["fam"], [0, 0])
        st[0] += 1
        if e is None or "log" not in e:
            ctx.violation(("engine-failed", c["fam"]), {"case": c, "detail": e})
            continue
        steps += len(e["log"])
        why = diff.cmp_full(e, n)
        if why is None:
            ctx.nontrivial(c["id"])
            continue
        st[1] += 1
        oh = h(diff.full_key(e), 10)
        if ctx.known_cell(c["id"], oh):
            continue
        detail = first_diff(e, n)
        if rec:
            rec.write(json.dumps({"cid": c["id"], "obs": oh, "fam": c["fam"], "ident": c["ident"], "why": why, "detail": detail, "src": c["src"][-700:]}) + "\n")
        ctx.violation((c["fam"], tuple(c["ident"][:2]) if c["fam"] != "history" else why), {"case": c["src"][-1500:], "why": why, "first_difference": detail})
    if rec:
        rec.close()
    ctx.cov["rule"] = ("call-form x function-kind table (19 forms x 10 kinds), 25 object-model probes, and seeded random histories of 4-14 operations over up to "
                       "5 objects and 3 constructor functions (literal, Object.create, new through prototype chains built by assigning and mutating "
                       "F.prototype, set/delete with dot, string and computed keys, accessors by literal and defineProperty, setPrototypeOf, assign) "
                       "with a full observation of every live object after every step; built-in array/string/number/regexp methods borrowed through "
                       "call/apply/bind/detached references onto another receiver; non-trivial = agreeing cases")
    ctx.cov["families_[cases,disagreements_incl_known]"] = fams
    ctx.cov["observation_steps"] = steps
    ctx.sample(cases[3]["src"][-300:])
    ctx.sample(cases[-1]["src"][-600:])
    ctx.assumptions += ["node v20 strict mode is the reference; enumeration is observed through Object.keys (for-in is documented own-keys-only) and integer-like keys are not generated"]


def first_diff(e, n):
    try:
        el, nl = diff.strip_stamp(e["log"]), n["log"]
        for i, (a, b) in enumerate(zip(el, nl)):
            if a != b:
                try:    # drill down to the observation cell
                    cols = KEYS + ["keys", "values/entries-length", "keys-own-in-agree", "for-in-own", "proto", "chain-length"]
                    for oi, (ra, rb) in enumerate(zip(a[0][2], b[0][2])):
                        for ci, (x, y) in enumerate(zip(ra[2], rb[2])):
                            if x != y:
                                return {"log_index": i, "object": oi, "column": cols[ci] if ci < len(cols) else "instanceof/isPrototypeOf#%d" % (ci - len(cols)),
                                        "engine": json.dumps(x)[:300], "reference": json.dumps(y)[:300]}
                except Exception:
                    pass
                return {"log_index": i, "engine": json.dumps(a)[:400], "reference": json.dumps(b)[:400]}
        if len(el) != len(nl):
            return {"log_lengths": [len(el), len(nl)], "engine_err": e.get("err"), "reference_err": n.get("err")}
        return {"engine_ret": e.get("ret"), "reference_ret": n.get("ret"), "engine_err": e.get("err"), "reference_err": n.get("err")}
    except Exception as ex:
        return {"error": repr(ex)}
