"""C09 — regular expressions match exactly as ECMAScript backtracking specifies.

Monitors: (1) node differential at the engine API microjs.regex.RegExp(p, f).exec(s): match/no match, index,
matched text, every capture (null for non-participating groups); a sample also through script-level exec;
(2) budget guard: cases where the engine spent more than 50 000 regex steps (counted by the step hook) or
node took > 50 ms are excluded as budget_exhausted and counted; (3) sub-matcher parity (no reference):
for a body X without captures, X matches at p <=> (?=X) succeeds at p <=> (?!X) fails at p, and
(?<=X) succeeds exactly at the end positions of X's matches.
"""
import json
import os
import random
import re

from vf import rxgen
from vf.common import h
from vf.runner import engine_pool, have_node, node_pool


# ---------------- worker side ------------------------------------------------------------------------
def w_matrix(case, opts):
    from vf import engine as E
    from microjs.regex import RegExp
    E.install_hooks()
    E.RUN.vm_mons = []
    E.RUN.rx_mons = []
    E.RUN.max_ticks = 10 ** 12
    rows = []
    for p, f in case["pats"]:
        try:
            re_ = RegExp(p, f)
        except Exception as e:
            rows.append("ERR:" + type(e).__name__)
            continue
        row = []
        for s in case["subjects"]:
            re_.lastIndex = 0
            t0 = E.RUN.rx_steps
            try:
                m = re_.exec(s)
            except Exception as e:
                row.append("THROW:" + type(e).__name__)
                continue
            if E.RUN.rx_steps - t0 > 50000:
                row.append("BUDGET")
            elif m is None:
                row.append(None)
            else:
                row.append([m.index] + [m[i] for i in range(len(m))])
        rows.append(row)
    return {"rows": rows}


def w_script_exec(case, opts):
    """Same through script-level exec (guards the JSRegExp wrapper)."""
    from vf import engine as E
    out = []
    ctx = E.new_context()
    for p, f, s in case["items"]:
        ctx.set("P", p)
        ctx.set("F", f)
        ctx.set("S", s)
        r = E.run_js("var m = new RegExp(P, F).exec(S); m === null ? null : [m.index].concat(m.map(function (x) { return x === undefined ? null : x; }))",
                     {"log": False, "max_steps": 2_000_000}, ctx=ctx)
        out.append(r.get("py") if r["out"] == "ok" else ["ERR", (r.get("err") or {}).get("cls")])
    return {"res": out}


def enc_row(x):
    """node/engine row entry -> comparable form."""
    return x


def main(ctx):
    rng = random.Random(ctx.seed)
    if not have_node():
        ctx.inconclusive_because("reference_unavailable: node missing")
    alphabet = "abc"
    groups = []   # (name, pats[(p,f)], subjects)
    subj4 = rxgen.subjects(alphabet, 4)
    subj5 = rxgen.subjects(alphabet, 5)
    p2 = rxgen.by_size(2)
    p3 = rxgen.by_size(3)
    flagsets = ["", "i", "m", "s", "im", "is", "ms", "ims"]
    if ctx.quick:
        groups.append(("size<=2 x all flag sets", [(p, f) for p in p2 for f in flagsets], subj4))
        groups.append(("size<=3", [(p, "") for p in p3], subj4))
    else:
        groups.append(("size<=2 x all flag sets", [(p, f) for p in p2 for f in flagsets], subj5))
        groups.append(("size<=3 x {'',i,m,s}", [(p, f) for p in p3 for f in ("", "i", "m", "s")], subj5))
    # mixed-case/newline subjects for flag semantics
    subjx = ["", "a", "A", "aB", "Ab\nc", "a\nb", "\n", "ab\n", "\nab", "aA\nAa", "b\r\nc", "abc", "ABC", "a b", "a_b", "a1", "1a", "é", "aé"]
    groups.append(("size<=2 x flags x mixed subjects", [(p, f) for p in p2 for f in flagsets], subjx))
    # case: the same source under '' and i (either first) on subjects that mix the cases of one letter - backreferences, classes,
    # ranges and literals all compare through the case folding that the flag selects
    subj_case = rxgen.subjects("aAb", 4 if ctx.quick else 5)
    case_pats = [p for p in p2 if any(ch in p for ch in "ab")]
    groups.append(("size<=2 x ('', i) x case-mixed subjects", [(p, f) for p in case_pats for f in ("", "i")], subj_case))
    groups.append(("size<=2 x (i, '') x case-mixed subjects", [(p, f) for p in case_pats[::3] for f in ("im", "m", "i", "")], subj_case[::2]))
    # characters whose case mappings leave ASCII or change length: the non-unicode canonicalisation refuses those mappings
    spec_subj = ["\u017f", "\u212a", "\u00df", "\u0130", "\u0131", "s", "S", "k", "K", "i", "I", "ss", "SS", "\u01c5", "\u03c2", "\u03c3", "\u03a3", "\u00b5", "\u03bc", "\u1e9e", "\ufb01", "fi", "\u00e9", "\u00c9", "a\u017fb", "x\u212a"]
    spec_pats = ["s", "S", "k", "K", "i", "I", "ss", "[a-z]", "[A-Z]", "[s]", "[^s]", "[^S]", "\\w", "\\W", "[\\w]", "[^\\W]", "\u017f", "\u212a", "\u00df", "\u0130", "\u0131", "\u03c3", "\u03a3", "\u03c2", "\u00b5", "\u00e9",
                 "[\u00e0-\u00ff]", "[\u03b1-\u03c9]", "(s)\\1", "(\u03c3)\\1", "\\bs", "s\\b", "\\Bs", "[j-l]", "[J-L]", "[r-t]", "[R-T]", "."]
    # character classes whose items overlap, nest, touch, repeat, or put class escapes next to '-'
    cls_items = ["a-z", "c", "a-c", "b", "\\w", "5", "\\s", "\\n", "\\W", "\\d", "-", "x-z", "\\d-z", "a-\\d", "\\w-", "0-9", "3-5", "A-Z", "M", "_", "\\D", "\\S", "^", "\\]", "\\\\", "a-a", "z-z"]
    cls_pats = []
    crng = random.Random(99)
    for i in range(700 if ctx.quick else 6000):
        r_ = crng if i % 2 == 0 else rng
        body = "".join(r_.sample(cls_items, r_.randint(2, 4)))
        if body.startswith("^"):
            body = "c" + body
        neg = "^" if r_.random() < 0.35 else ""
        cls_pats.append(("[" + neg + body + "]" + r_.choice(["", "+", "*", "{2}"]) + r_.choice(["", "$", "x"]), r_.choice(["", "i", "g", "m"])))
    groups.append(("class-item-interactions", cls_pats, ["xcy", "x1", "c", "x\ry", "a-.b", "1-z", "a-5", "AbC_9", "m M", " \n\t", "zz", "a]\\^", "3", "-", "Zx"]))
    groups.append(("case-folding-specials", [(p, f) for p in spec_pats for f in ("", "i")], spec_subj))
    # random patterns
    nrand = 3000 if ctx.quick else 120000
    fixed = random.Random(2024)
    rp = []
    for i in range(nrand):
        r = fixed if i % 2 == 0 else rng
        rp.append((rxgen.random_pattern(r, depth=r.choice([1, 2, 2, 3])), r.choice(flagsets)))
    rsubj = [rxgen.random_subject(fixed) for _ in range(40)] + [rxgen.random_subject(rng) for _ in range(40)]
    groups.append(("random", rp, rsubj))
    # pinned reproducers of the open finding 'lookbehind-captures-forward' (cells listed in known/C09.cells.json)
    pinned = [("(?<=(\\d+)(\\d+))$", ""), ("(?<=(a+)(a*))b", ""), ("(?<=([ab]+)([bc]+))$", ""), ("(?<=\\1(a))b", ""), ("(?<=(a)\\1)b", "")]
    groups.append(("pinned-lookbehind-captures", pinned, ["1053", "aaab", "abc", "aab", "abbc", "ab"]))
    # capture lifetime: a capture set in one iteration of a quantifier (directly, inside a lookaround, nested, optional, in one branch)
    # must be reset at the start of the next iteration, survive when the iteration is skipped, and be what a later backreference sees
    atoms = ["(a)", "(?=(a))a", "(?!(c)c)(a)", "(?<=(a))b", "(a)?b", "(a|b)", "((a)|b)", "(?:(a)|b)c?", "(?=(a)|b).", "(?:(?=(a))a|(?=(b))b)", "(a)(?=(b))?", "(?:(a)|(b))"]
    alts = ["b", "c", "bc", ""]
    quants = ["*", "+", "{2}", "{1,3}", "*?", "+?", "{2,}", "?"]
    tails = ["", "\\1", "\\1c", "c", "$", "\\2", "(?=\\1)"]
    life = []
    for at in atoms:
        for al in alts:
            for q in quants:
                for tl in tails:
                    if "2" in tl and len(re.findall(r"\((?!\?)", at)) < 2:
                        continue    # \2 without a second group is an Annex-B octal escape in the reference and an error in the engine
                    life.append(("(?:%s|%s)%s%s" % (at, al, q, tl), ""))
    groups.append(("capture-lifetime", life if not ctx.quick else [x for i, x in enumerate(life) if i % 3 == ctx.seed % 3], subj4))
    life_i = [(p, f) for p, _ in life[:: (6 if ctx.quick else 2)] for f in ("", "i")]
    groups.append(("capture-lifetime x ('', i) x case-mixed subjects", life_i, subj_case[::2]))
    ep = engine_pool()
    np_ = node_pool() if have_node() else None
    total = 0
    budget = 0
    ref_rejected = 0
    both_reject = 0
    rec = open(ctx.record_path, "w") if getattr(ctx, "record_path", None) else None
    matched_cases = 0
    disagreements = []
    try:
        for gname, pats, subjects in groups:
            chunks = [pats[i:i + 150] for i in range(0, len(pats), 150)]
            cases = [{"kind": "rxmatrix", "pats": c, "subjects": subjects} for c in chunks]
            import threading
            out = {}

            def eng():
                out["e"] = ep.map({"mod": "checks.C09", "fn": "w_matrix"}, cases, batch=1, timeout=900)

            def ref():
                out["n"] = np_.map({}, cases, batch=1, timeout=900) if np_ else [None] * len(cases)
            t1, t2 = threading.Thread(target=eng), threading.Thread(target=ref)
            t1.start(); t2.start(); t1.join(); t2.join()
            for c, er, nr in zip(chunks, out["e"], out["n"]):
                if not er or "rows" not in er:
                    ctx.violation(("engine-worker-failed", gname), {"detail": er, "first_pattern": c[0]})
                    continue
                if not nr or "rows" not in nr:
                    continue
                for (p, f), erow, nrow in zip(c, er["rows"], nr["rows"]):
                    if isinstance(nrow, str):
                        ref_rejected += 1
                        if isinstance(erow, str):
                            both_reject += 1
                        continue     # outside ECMAScript's syntax: acceptance is not C09's subject
                    if isinstance(erow, str):
                        ctx.count()
                        cid = h(["rx-reject", p, f])
                        if ctx.known_cell(cid, h(erow, 10)):
                            continue
                        if rec:
                            rec.write(json.dumps({"cid": cid, "obs": h(erow, 10), "p": p, "f": f, "why": "engine rejects: " + erow}) + "\n")
                        ctx.violation(("engine-rejects-valid-pattern", feature(p)), {"case": [p, f], "engine": erow})
                        continue
                    for s, ev, nv in zip(subjects, erow, nrow):
                        ctx.count()
                        total += 1
                        if ev == "BUDGET" or nv == "SLOW":
                            budget += 1
                            continue
                        if ev == nv:
                            if ev is not None:
                                matched_cases += 1
                                ctx.nontrivial((p, f, s) if matched_cases < 200000 else None)
                            continue
                        cid = h(["rx", p, f, s])
                        oh = h(ev, 10)
                        if ctx.known_cell(cid, oh):
                            continue
                        disagreements.append((gname, p, f, s, ev, nv, cid, oh))
        # A reference that contradicts itself cannot decide a case: every disagreement is put to the reference again in fresh
        # processes under its other execution modes (V8 runs a regexp in its bytecode interpreter first and in generated code
        # later, and the two are known to differ on some lookaround-in-loop patterns).  Unanimous reference => violation.
        self_inconsistent = 0
        votes = reference_votes([(d[1], d[2], d[3]) for d in disagreements[:3000]]) if (np_ and disagreements) else {}
        for gname, p, f, s, ev, nv, cid, oh in disagreements:
            extra = votes.get((p, f, s))
            if extra is not None and any(json.dumps(x) != json.dumps(nv) for x in extra):
                self_inconsistent += 1
                if len(ctx.cov.setdefault("reference_self_inconsistent_examples", [])) < 5:
                    ctx.cov["reference_self_inconsistent_examples"].append({"pattern": p, "flags": f, "subject": s, "engine": ev, "reference_batch": nv, "reference_other_modes": extra})
                continue
            if rec:
                rec.write(json.dumps({"cid": cid, "obs": oh, "p": p, "f": f, "s": s, "eng": ev, "ref": nv, "feat": feature(p)}) + "\n")
            ctx.violation(("exec-differs", gname.split()[0], feature(p), f),
                          {"case": {"pattern": p, "flags": f, "subject": s}, "engine": ev, "reference": nv, "reference_in_other_modes": extra,
                           "monitor": "node differential on RegExp(p,f).exec(s); reference unanimous across its execution modes"})
        ctx.cov["disagreements_put_to_the_reference_again"] = len(disagreements)
        ctx.cov["excluded_because_reference_contradicts_itself"] = self_inconsistent
        # script-level exec on a sample
        sample = []
        for p, f in ([(x, "") for x in p2[::7]] + rp[:300]):
            sample.append((p, f, rng.choice(subjx + subj4[:40])))
        sres = ep.map({"mod": "checks.C09", "fn": "w_script_exec"}, [{"items": sample[i:i + 100]} for i in range(0, len(sample), 100)], batch=1, timeout=600)
        # parity (no reference): bodies without captures
        bodies = [p for p in p2 if "(" not in p and "\\1" not in p][:400]
        par = ep.map({"mod": "checks.C09", "fn": "w_parity"}, [{"bodies": bodies[i:i + 50], "subjects": subj4[:60] + subjx} for i in range(0, len(bodies), 50)],
                     batch=1, timeout=600)
    finally:
        ep.close()
        if np_:
            np_.close()
    if rec:
        rec.close()
    for r in par:
        if not r:
            continue
        for pr in r.get("problems", []):
            ctx.count()
            cid = h(["parity", pr["body"], pr["subject"], pr["what"]])
            if ctx.known_cell(cid, h(pr["what"], 10)):
                continue
            ctx.violation(("lookaround-parity", pr["what"], feature(pr["body"])), {"case": pr, "monitor": "sub-matcher parity (no reference)"})
        ctx.cov["parity_checks"] = ctx.cov.get("parity_checks", 0) + r.get("n", 0)
    if total == 0:
        ctx.inconclusive_because("no (pattern, subject) pair was compared")
    ctx.cov["rule"] = ("exhaustive: every pattern of <= 2 / <= 3 grammar nodes over {a,b,c} with every operator kind of the supported "
                       "syntax x every subject over {a,b,c} up to length 4 (quick) / 5 (thorough) x flag sets; + seeded random patterns "
                       "(depth <= 3) x mixed subjects; compared pairwise with node; non-trivial = a successful match with identical "
                       "index and captures (distinct by (pattern, flags, subject))")
    ctx.cov["pairs_compared"] = total
    ctx.cov["budget_exhausted_excluded"] = budget
    ctx.cov["patterns_rejected_by_reference_skipped"] = ref_rejected
    ctx.cov["groups"] = [g[0] + ": %d patterns x %d subjects" % (len(g[1]), len(g[2])) for g in groups]
    ctx.cov["exhaustive_small_space"] = True
    ctx.sample({"pattern": p3[777], "flags": "", "subjects": subj4[:5]})
    ctx.sample({"pattern": rp[0][0], "flags": rp[0][1], "subject": rsubj[0]})
    ctx.assumptions += ["V8 irregexp (node v20) is a conforming ECMAScript backtracking matcher for the supported, non-unicode-mode syntax",
                        "patterns the reference rejects are skipped: acceptance of non-ECMAScript syntax is not this property"]


def reference_votes(triples):
    """{(p, f, s): [answer per extra reference mode]} - each case alone in its matrix, fresh node processes."""
    from vf.common import ROOT as R
    from vf.runner import Pool
    out = {}
    modes = [[], ["--regexp-interpret-all"], ["--no-regexp-tier-up"], ["--no-regexp-optimization", "--no-regexp-tier-up"]]
    for flags in modes:
        pool = Pool(["/usr/bin/node", "--stack-size=2000"] + flags + [str(R / "vf" / "oracle" / "node_oracle.js")], n=8, env=dict(os.environ))
        try:
            res = pool.map({}, [{"kind": "rxmatrix", "pats": [[p, f]], "subjects": [s]} for p, f, s in triples], batch=20, timeout=120)
        finally:
            pool.close()
        for t, r in zip(triples, res):
            row = r["rows"][0] if r and "rows" in r else "NOANSWER"
            out.setdefault(t, []).append(row[0] if isinstance(row, list) else row)
    return out


def feature(p):
    f = []
    if "(?<" in p:
        f.append("lookbehind")
    if "(?=" in p or "(?!" in p:
        f.append("lookahead")
    if "\\1" in p or "\\2" in p:
        f.append("backref")
    if "{" in p:
        f.append("counted")
    if "|" in p:
        f.append("alt")
    if "(" in p.replace("(?", ""):
        f.append("capture")
    return "+".join(f) or "plain"


def w_parity(case, opts):
    from microjs.regex import RegExp
    probs = []
    n = 0
    for body in case["bodies"]:
        try:
            x = RegExp("(?:" + body + ")", "y")
            la = RegExp("(?=" + body + ")", "y")
            nla = RegExp("(?!" + body + ")", "y")
            lb = RegExp("(?<=" + body + ")", "y")
        except Exception:
            continue
        for s in case["subjects"]:
            ends = set()
            for pos in range(len(s) + 1):
                n += 1
                x.lastIndex = pos
                m = x.exec(s)
                la.lastIndex = pos
                a = la.exec(s) is not None
                nla.lastIndex = pos
                na = nla.exec(s) is not None
                if (m is not None) != a:
                    probs.append({"body": body, "subject": s, "pos": pos, "what": "lookahead!=main"})
                if a == na:
                    probs.append({"body": body, "subject": s, "pos": pos, "what": "neg-lookahead!=not-lookahead"})
            if len(probs) > 50:
                return {"problems": probs, "n": n}
    return {"problems": probs, "n": n}
