"""C10 — the regex engine is total: any pattern and subject, bounded work, no host errors.

Monitors on the real engine:
  1. boundary: constructing from any string -> ok or RegExpError at microjs.regex.RegExp, ok or a JSError
     (script-catchable SyntaxError) at Context.eval; any other exception class is a violation (escape site kept).
  2. regex step hook: steps within one match attempt <= step_limit + 2; backtrack stack <= stack_limit + 1;
     compiled size bounded; attempts per search counted.
  3. matching catastrophic families over growing subjects: outcome is a defined result or a JSError; with a
     (virtual) time limit the C01 overrun bound holds; without one the counted steps stay within
     (len + 1) * (step_limit + 2).
"""
import json
import struct
import random

from vf import rxgen
from vf.common import h
from vf.runner import engine_pool

META = list("()[]{}|*+?^$\\.-,:=!<>") + list("abc019") + ["\\d", "\\w", "\\b", "\\1", "\\k", "\\u", "\\x", "\\c", "(?", "(?<", "{2,", "[^", "\\u{", "(?:", "(?=", "(?!", "(?<=", "(?<!", "{,", "a-", "-]"]
HUGE = ["0", "1", "255", "256", "65535", "65536", "1000000", "1000000000", "2147483648", "9223372036854775808", "99999999999999999999"]
FAMILIES = [("(a+)+b", "a"), ("(a|a)*b", "a"), ("(a|aa)+b", "a"), ("(.*)*x", "a"), ("(a*)*b", "a"), ("(a*)\\1*b", "a"),
            ("(?:a(?=a*))*b", "a"), ("(?=(a+)+b)a", "a"), ("(?<=(a|a)*b)c", "a"), ("(?:a+){2,}b", "a"), ("([ab]+)+c", "ab"),
            ("(\\w+\\s?)+$", "a "), ("^(a?){25}a{25}$".replace("25", "18"), "a"), ("(a+)+", "a"), ("(?:(?:a*)*)*b", "a")]


def gen_patterns(ctx, rng):
    pats = []
    fixed = random.Random(555)
    n = 4000 if ctx.quick else 80000
    for i in range(n):
        r = fixed if i % 2 == 0 else rng
        k = r.randint(1, 30)
        pats.append("".join(r.choice(META) for _ in range(k)))
    # mutations of valid patterns
    base = [rxgen.random_pattern(fixed, depth=2) for _ in range(150 if ctx.quick else 2000)]
    for p in base:
        if not p:
            continue
        pats.append(p)
        for _ in range(6):
            r = rng if rng.random() < 0.5 else fixed
            i = r.randrange(len(p))
            kind = r.randrange(4)
            if kind == 0:
                pats.append(p[:i] + p[i + 1:])
            elif kind == 1:
                pats.append(p[:i] + p[i] + p[i:])
            elif kind == 2 and i + 1 < len(p):
                pats.append(p[:i] + p[i + 1] + p[i] + p[i + 2:])
            else:
                pats.append(p[:i])
    # counted quantifiers with huge numbers, alone and nested
    for a in HUGE:
        pats += ["a{%s}" % a, "a{%s,}" % a, "a{0,%s}" % a, "a{%s,%s}" % (a, a), "(?:a{%s}){%s}" % (a, a), "(a{%s})*" % a, "[ab]{%s}c" % a,
                 "a{%s}{%s}" % (a, a), "(?:a{2}){%s}" % a, "a{1,%s}?" % a, "(?=a{%s})" % a, "(?<=a{%s})b" % a,
                 # bodies that emit no instruction: unrolling them must not cost time proportional to the count
                 "(?:){%s}" % a, "(){%s}" % a, "(?:|){%s}" % a, "(?:(?:)){%s,}" % a, "(?:){1,%s}" % a, "(?:(?:){%s}){%s}" % (a, a), "(?:a*){%s}" % a, "(?:){%s}?" % a]
    for n_groups in (10, 100, 255, 256, 1000, 10000):
        pats.append("(a)" * n_groups)
        pats.append("(a)" * n_groups + "\\%d" % n_groups)
        pats.append("|".join(["a"] * n_groups))
        pats.append("[" + "a-c" * n_groups + "]")
    for d in (5, 30, 100, 200, 500, 2000):
        pats.append("(" * d + "a" + ")" * d)
        pats.append("(?:" * d + "a" + ")" * d)
        pats.append("(?=" * d + "a" + ")" * d)
        pats.append("(" * d + "a")
        pats.append("a" + ")" * d)
        pats.append("[" * d)
        pats.append("(?:a" * d + ")*" * d)
    pats += ["", "\\", "[", "(", ")", "*", "?", "+", "{", "}", "|", "a**", "a++", "a??", "a{", "a{1", "a{1,", "a{,1}", "a{2,1}", "[b-a]", "[\\d-z]",
             "\\u", "\\u12", "\\u{110000}", "\\u{", "\\x1", "\\c", "\\ca", "\\k<x>", "(?<x>a)\\k<x>", "(?<", "(?", "(?P<x>a)", "\\8", "\\0", "\\00",
             "[\\b]", "\\B*", "^*", "$+", "(?=a)*", "(?!a)+", "(?<=a)?", "a|*", "(|)", "()", "(?:)", "[]", "[^]", "[]a]", "[^]a]", "\\1(a)", "(a)\\2",
             "a{1}{2}", "\ud800", "\U0001F600+", "[\U0001F600-\U0001F64F]", "a\x00b", "\n", "(?i)a", "a(?#c)b", "\\p{L}", "\\Q..\\E"]
    return list(dict.fromkeys(pats))


FLAGS = ["", "g", "i", "m", "s", "u", "y", "gimsuy", "gg", "x", "G", "ig ", "d", "v", "uv", "gi,", "\x00", "é"]


# ---------------- worker side -----------------------------------------------------------------------
def w_construct(case, opts):
    """Construct at the bare API and through script (literal-free: RegExp constructor), then one exec."""
    from vf import engine as E
    from microjs.regex import RegExp, RegExpError
    out = []
    for p, f in case["items"]:
        ent = {}
        st = {"max_stack": 0, "steps": 0}

        def rmon(rvm, loop, pc, sp, nstack):
            st["steps"] += 1
            if nstack > st["max_stack"]:
                st["max_stack"] = nstack
        E.install_hooks()
        E.RUN.ticks = 0
        E.RUN.max_ticks = 3_000_000
        E.RUN.vm_mons = []
        E.RUN.rx_mons = [rmon]
        t0 = E.real_now()
        try:
            r = RegExp(p, f)
            ent["api"] = "ok"
            ent["ninstr"] = len(r._bytecode)
            try:
                r.exec("aab\nabc aaaa \u00df\u0130\u0149\u01f0\ufb01\u0390\u017f\u212a")     # incl. characters whose case mappings change length
                ent["exec"] = "ok"
            except E.VerifAbort:
                ent["exec"] = "abort"
            except Exception as e:
                ent["exec"] = type(e).__name__
                ent["exec_site"] = E.escape_site(e)
        except RegExpError as e:
            ent["api"] = "RegExpError"
        except RecursionError as e:
            ent["api"] = "RecursionError"
            ent["site"] = E.escape_site(e)
        except Exception as e:
            ent["api"] = type(e).__name__
            ent["site"] = E.escape_site(e)
        ent["compile_s"] = round(E.real_now() - t0, 3)
        ent["steps"] = st["steps"]
        ent["max_stack"] = st["max_stack"]
        # through script: constructor + catchability
        ctx = E.new_context(2_000_000, None)
        ctx.set("P", p)
        ctx.set("F", f)
        r2 = E.run_js("var out; try { var re = new RegExp(P, F); out = ['ok', typeof re.test('aab'), String(re.exec('aab\\nabc') === null)]; } "
                      "catch (e) { out = ['caught', e && e.name, e instanceof SyntaxError]; } out", {"log": False, "max_steps": 3_000_000}, ctx=ctx)
        ent["script"] = r2["out"]
        ent["script_py"] = r2.get("py")
        if r2["out"] != "ok":
            ent["script_err"] = r2.get("err") or r2.get("abort")
        out.append(ent)
    return {"res": out}


GRID_SUBJECTS = ["", "a", "hi", "aab\nabc aaaa", "\ud83d\ude00x\ud83d\ude00", "# a", "a;", "a-b", "\u00df\u0130"]
GRID_LASTINDEX = ["0", "1", "2", "3", "4", "7", "99", "-1", "1.5", "4294967296", "1e21", "NaN", "Infinity", "-Infinity", "undefined", "null", "'2'", "{}", "S.length", "S.length + 1", "S.length - 1"]
GRID_FLAGS = ["", "g", "y", "gy", "gu", "yu", "giy", "gmy", "gsuy", "m", "u"]
GRID_SCRIPT = """
var done = 0, errs = {};
function note(e) { if (!(e instanceof Error)) { throw e; } errs[e.name] = (errs[e.name] || 0) + 1; }
var re = null;
try { re = new RegExp(P, F); } catch (e) { note(e); }
if (re !== null) {
  for (var si = 0; si < SUBJECTS.length; si++) {
    var S = SUBJECTS[si];
    for (var li = 0; li < LIS.length; li++) {
      var L = eval(LIS[li]);
      try { re.lastIndex = L; re.exec(S); done++; } catch (e) { note(e); }
      try { re.lastIndex = L; re.test(S); done++; re.test(S); re.exec(S); } catch (e) { note(e); }
      try { re.lastIndex = L; S.replace(re, '!'); done++; } catch (e) { note(e); }
      try { re.lastIndex = L; S.replace(re, function (m) { return '<' + m + '>'; }); done++; } catch (e) { note(e); }
      try { re.lastIndex = L; S.match(re); done++; } catch (e) { note(e); }
      try { re.lastIndex = L; S.split(re); done++; } catch (e) { note(e); }
      try { re.lastIndex = L; S.search(re); done++; } catch (e) { note(e); }
      try { re.lastIndex = L; S.replaceAll(re, '-'); done++; } catch (e) { note(e); }
      try { re.lastIndex = L; var it = S.matchAll(re), n = 0; for (var m of it) { if (++n > 20) break; } done++; } catch (e) { note(e); }
      try { var li2 = re.lastIndex; if (typeof li2 !== 'number' && li2 !== L) { throw 'lastIndex became ' + typeof li2; } } catch (e) { note(e); }
    }
  }
}
[done, JSON.stringify(errs)];
"""


def w_matchgrid(case, opts):
    """Accepted patterns x flags, matched from every kind of lastIndex (past the end, negative, fractional, huge, non-numeric) on
    several subjects through every regex-consuming API: the only outcomes are results and script errors."""
    from vf import engine as E
    import random as _r
    out = []
    for p, f, seed in case["items"]:
        given = seed[1] if isinstance(seed, list) else None       # (["subjects", [...]]: these subjects instead of a sample)
        rr = _r.Random(0 if given is not None else seed)
        ctx = E.new_context(None, None)
        ctx.set("P", p)
        ctx.set("F", f)
        ctx.set("SUBJECTS", given if given is not None else rr.sample(GRID_SUBJECTS, 3))
        ctx.set("LIS", rr.sample(GRID_LASTINDEX, 5) + ["S.length + 1"])
        r = E.run_js(GRID_SCRIPT, {"log": False, "max_steps": 1_500_000}, ctx=ctx)
        ent = {"o": r["out"], "py": r.get("py")}
        if r["out"] != "ok":
            ent["err"] = r.get("err") or r.get("abort")
        out.append(ent)
    return {"res": out}


def w_literal(case, opts):
    """Regex literals in source text: /p/f"""
    from vf import engine as E
    out = []
    for src in case["srcs"]:
        r = E.run_js(src, {"log": False, "max_steps": 2_000_000, "tl": 2_000_000})
        out.append({"o": r["out"], "err": r.get("err") or r.get("abort"), "py": r.get("py")})
    return {"res": out}


def w_memory(case, opts):
    """Peak heap growth (tracemalloc) while constructing a pattern at the bare API: the compile budget bounds the program, so the
    memory needed to refuse a count of 3*10^7 must not differ from the memory needed to refuse 10^6."""
    import tracemalloc
    from microjs.regex import RegExp
    out = []
    for p in case["pats"]:
        tracemalloc.start()
        res = "ok"
        try:
            RegExp(p, "")
        except MemoryError:
            res = "MemoryError"
        except Exception as e:
            res = type(e).__name__
        peak = tracemalloc.get_traced_memory()[1]
        tracemalloc.stop()
        out.append([res, peak])
    return {"res": out}


MEM_SHAPES = ["a{%d}", "[0-9a-f]{%d}", "(?:ab){%d}", "\\d{%d,}", "(a){%d}", "(?:(?:a{200}){200}){%d}", ".{%d}x", "a{%d}{2}", "(?:a|b){%d}", "\\1(a){%d}", "(?=a{%d})", "a{0,%d}", "(?:a{%d}){3}"]
MEM_COUNTS = [1000000, 8000000, 30000000]


def w_family(case, opts):
    """Catastrophic family on a subject of given length, with/without a virtual time limit, hook counting."""
    from vf import engine as E
    from microjs.regex.vm import RegexVM
    step_limit = RegexVM.DEFAULT_STEP_LIMIT
    stack_limit = RegexVM.DEFAULT_STACK_LIMIT
    st = {"attempt_steps": 0, "max_attempt_steps": 0, "attempts": 0, "max_stack": 0, "viol": None, "rx_after": 0}
    D = case.get("D")

    def rmon(rvm, loop, pc, sp, nstack):
        if loop == "main" and pc == 0 and nstack == 0:
            st["attempts"] += 1
            st["attempt_steps"] = 0
        st["attempt_steps"] += 1
        if st["attempt_steps"] > st["max_attempt_steps"]:
            st["max_attempt_steps"] = st["attempt_steps"]
        if nstack > st["max_stack"]:
            st["max_stack"] = nstack
        if st["attempt_steps"] > step_limit + 200 and st["viol"] is None:
            st["viol"] = "attempt exceeded step_limit: %d steps" % st["attempt_steps"]
            raise E.VerifAbort("regex-attempt-unbounded")
        if nstack > stack_limit + 2 and st["viol"] is None:
            st["viol"] = "backtrack stack %d > stack_limit" % nstack
            raise E.VerifAbort("regex-stack-unbounded")
        if D is not None and E.RUN.ticks > D:
            st["rx_after"] += 1
            if st["rx_after"] > 12000 and st["viol"] is None:
                st["viol"] = "regex kept running %d steps past the deadline" % st["rx_after"]
                raise E.VerifAbort("regex-overrun")

    def vmon(vm):
        st["rx_after"] = 0
    ctx = E.new_context(D, None)
    ctx.set("S", case["subject"])
    ctx.set("P", case["pattern"])
    src = case["use"]
    budget = (len(case["subject"]) + 2) * (step_limit + 300) + 100000 if D is None else D + 500000
    r = E.run_js(src, {"log": False, "max_steps": budget, "_rx_mons": [rmon], "_vm_mons": [vmon]}, ctx=ctx)
    return {"o": r["out"], "err": r.get("err"), "abort": r.get("abort"), "py": r.get("py"), "ticks": r["ticks"], "rx": r["rx_steps"],
            "attempts": st["attempts"], "max_attempt_steps": st["max_attempt_steps"], "max_stack": st["max_stack"], "viol": st["viol"]}


USES = [("test", "new RegExp(P).test(S)"), ("exec", "var m = new RegExp(P).exec(S); m === null ? null : m[0].length"),
        ("match-g", "var m = S.match(new RegExp(P, 'g')); m === null ? null : m.length"), ("replace", "S.replace(new RegExp(P, 'g'), 'x').length"),
        ("split", "S.split(new RegExp(P)).length"), ("search", "S.search(new RegExp(P))"),
        ("caught", "var out; try { out = new RegExp(P).test(S); } catch (e) { out = 'caught:' + e.name; } out")]
# every entry point of the matcher: a budget that runs out must come back as a value or a catchable error through each of them
USES_ALL = USES + [
    ("replace-nonglobal", "var out; try { out = S.replace(new RegExp(P), 'x').length; } catch (e) { out = 'caught:' + e.name; } out"),
    ("replace-fn", "var out; try { out = S.replace(new RegExp(P), function (m) { return 'y'; }).length; } catch (e) { out = 'caught:' + e.name; } out"),
    ("match-nonglobal", "var out; try { var m = S.match(new RegExp(P)); out = m === null ? null : m.length; } catch (e) { out = 'caught:' + e.name; } out"),
    ("match-string-pattern", "var out; try { var m = S.match(P); out = m === null ? null : m.length; } catch (e) { out = 'caught:' + e.name; } out"),
    ("search-string-pattern", "var out; try { out = S.search(P); } catch (e) { out = 'caught:' + e.name; } out"),
    ("replaceAll", "var out; try { out = S.replaceAll(new RegExp(P, 'g'), 'x').length; } catch (e) { out = 'caught:' + e.name; } out"),
    ("split-limit", "var out; try { out = S.split(new RegExp(P), 2).length; } catch (e) { out = 'caught:' + e.name; } out"),
    ("sticky-test", "var out; try { out = new RegExp(P, 'y').test(S); } catch (e) { out = 'caught:' + e.name; } out"),
    ("sticky-exec-lastIndex", "var out; try { var r = new RegExp(P, 'gy'); r.lastIndex = 1; out = r.exec(S) === null; } catch (e) { out = 'caught:' + e.name; } out"),
    ("literal-via-eval", "var out; try { out = (0, eval)('/' + P + '/').test(S); } catch (e) { out = 'caught:' + e.name; } out"),
    ("uncaught-replace", "S.replace(new RegExp(P), 'x').length"), ("uncaught-match", "S.match(new RegExp(P))"),
]


def main(ctx):
    rng = random.Random(ctx.seed)
    pats = gen_patterns(ctx, rng)
    items = [(p, "") for p in pats]
    for f in FLAGS:
        items.append(("a+", f))
        items.append((rng.choice(pats[:200]), f))
    lits = []
    for p in pats[: (600 if ctx.quick else 6000)]:
        if "\n" in p or "\r" in p or " " in p or " " in p:
            continue
        lits.append("var out; try { out = typeof eval(%s); } catch (e) { out = ['caught', e.name]; } out" % json.dumps("/" + p + "/.test('aab')"))
    fam = []
    lens_free = [5, 10, 20, 30] if ctx.quick else [5, 10, 20, 30, 60, 100]
    lens_tl = [10, 30, 100, 1000] if ctx.quick else [10, 30, 100, 1000, 10000]
    for pat, unit in FAMILIES:
        for un, use in (USES_ALL if not ctx.quick else USES[:3] + USES[-1:] + [USES_ALL[7 + (ctx.seed + len(pat)) % 12]]):
            for L in lens_free:
                fam.append({"pattern": pat, "subject": (unit * L)[:L], "use": use, "usen": un, "D": None})
            for L in lens_tl:
                fam.append({"pattern": pat, "subject": (unit * L)[:L], "use": use, "usen": un, "D": 5000})
    # deep backtrack stacks: one split entry per consumed character
    for pat, unit in (("(?:a|b)*c", "a"), ("(a|b|c)*d", "abc"), ("(?:.|\\n)*x", "a"), ("(?:a|b)*?c", "ab")):
        for un, use in USES[:2] + USES[-1:]:
            fam.append({"pattern": pat, "subject": (unit * 20000)[:20000], "use": use, "usen": un, "D": 400000})
    # backtrack points left behind by every kind of choice instruction (lazy ? * {n,m}, greedy, alternation, optional groups, inside
    # lookarounds), on matches that SUCCEED after piling up more entries than the budget allows within the step budget
    for pat in ("(?:x??y??a)*?$", "(?:x??a)*$", "(?:a??)+?$", "(?:x{0,1}?a)*?$", "(?=(?:x??y??a)*?$)a", "(?:(?:x|)a)*$", "(?:x?y?a)*$", "(?:(x)??a)*?$", "(?:[xy]??a)*?b?$", "(?<=(?:x??a)*?)$"):
        for n in ((9000, 12000) if ctx.quick else (6000, 9000, 12000, 20000)):
            for un, use in USES[:2]:
                fam.append({"pattern": pat, "subject": "a" * n, "use": use, "usen": un, "D": None})
        if not ctx.quick or pat == "(?:a|b)*c":
            # the backtrack-stack budget runs out (one entry per character, no time limit involved) under every entry point
            for un, use in USES_ALL:
                fam.append({"pattern": pat, "subject": (unit * 5200)[:5200] + "!", "use": use, "usen": un, "D": None, "anchor": True})
    CURATED = ["\\b\\w+", "\\B-", "^#.*", ";?$", "(?<=a)b", "(?<!a)b", "(a)\\1", "\\b", "$", "^", "a*", "(?:)", ".", "[^]", "\\s*", "(?=.)", "\\w+\\b", "\\ud83d", "[\\ud83d\\ude00]", "\\u{1F600}", ".$", "\\n^"]
    gitems = [(p, f, i) for i, p in enumerate(CURATED) for f in GRID_FLAGS]
    for i, p in enumerate(pats[: (700 if ctx.quick else 8000)]):
        gitems.append((p, rng.choice(GRID_FLAGS), ctx.seed * 100003 + i))
        if i % 3 == 0:
            gitems.append((p, rng.choice(["y", "gy", "yu"]), ctx.seed * 100003 + i + 1))
    # case-insensitive matching over every character whose upper- or lower-case form is not one character, or crosses the ASCII
    # boundary, or differs from its simple case folding (the host's str.upper/lower answer with strings the matcher must not choke on)
    import unicodedata as _ud
    specials = [chr(c) for c in range(0x80, 0x10000) if not (0xD800 <= c < 0xE000) and
                (len(chr(c).upper()) != 1 or len(chr(c).lower()) != 1 or ord(chr(c).upper()[0]) < 0x80 or ord(chr(c).lower()[0]) < 0x80)]
    chunks = ["".join(specials[i:i + 12]) for i in range(0, len(specials), 12)]
    for p in ("[a-z]+", "[^a-z]", "[A-Z]", "[^A-Z0-9]+", "\\w+", "\\W", "[\\u0370-\\u03ff]+", "[^\\u0370-\\u03ff]", "[s-t]", "[\\u1f80-\\u1fff]", "(.)\\1", "ss|fi|i", "."):
        for f in ("i", "gi", "iu", "giy", "im"):
            for k in range(0, len(chunks), 3):
                gitems.append((p, f, ["subjects", chunks[k:k + 3]]))
    ctx.cov["matchgrid_special_casing_characters"] = len(specials)
    ep = engine_pool()
    try:
        gres = ep.map({"mod": "checks.C10", "fn": "w_matchgrid"}, [{"items": gitems[i:i + 25]} for i in range(0, len(gitems), 25)], batch=1, timeout=900, single_timeout=300)
        cres = ep.map({"mod": "checks.C10", "fn": "w_construct"}, [{"items": items[i:i + 40]} for i in range(0, len(items), 40)], batch=1,
                      timeout=600, single_timeout=120)
        lres = ep.map({"mod": "checks.C10", "fn": "w_literal"}, [{"srcs": lits[i:i + 100]} for i in range(0, len(lits), 100)], batch=1, timeout=600)
        fres = ep.map({"mod": "checks.C10", "fn": "w_family"}, fam, batch=2, timeout=1800, single_timeout=900)
        mres = ep.map({"mod": "checks.C10", "fn": "w_memory"}, [{"pats": [sh % n for n in MEM_COUNTS]} for sh in MEM_SHAPES], batch=1, timeout=900)
    finally:
        ep.close()
    accepted = rejected = 0
    ii = 0
    for r in cres:
        chunk = items[ii:ii + 40]
        ii += 40
        if not r or "res" not in r:
            # isolate: which pattern hangs/crashes the worker
            ctx.violation(("construct-no-return",), {"case": [repr(x) for x in chunk][:40], "detail": r,
                                                     "monitor": "watchdog: constructing/matching one of these patterns hung or crashed"})
            continue
        for (p, f), e in zip(chunk, r["res"]):
            ctx.count()
            prob = None
            if e["api"] == "ok":
                accepted += 1
                ctx.nontrivial(("ok", p, f))
                if e.get("exec") not in ("ok",):
                    prob = "match raised %s" % e.get("exec")
                if e["ninstr"] > 1_000_000:
                    prob = "compiled to %d instructions" % e["ninstr"]
            elif e["api"] == "RegExpError":
                rejected += 1
                ctx.nontrivial(("rej", p, f))
            else:
                prob = "constructor raised %s" % e["api"]
            if e["compile_s"] > 10:
                prob = "construction took %.1fs" % e["compile_s"]
            if not prob:
                if e["script"] != "ok":
                    prob = "script-level construction escaped try/catch: %r" % (e.get("script_err"),)
                else:
                    py = e["script_py"]
                    tag = py[1][0][1] if py and py[0] == "l" else None
                    if tag == "caught":
                        if py[1][1] != ["s", "SyntaxError"] or py[1][2] != ["b", True]:
                            prob = "script caught %r instead of a SyntaxError" % (py[1][1:],)
                    if (tag == "ok") != (e["api"] == "ok"):
                        prob = "API and script disagree on acceptance: api=%s script=%s" % (e["api"], tag)
            if prob:
                key = prob.split(":")[0][:60]
                cid = h(["construct", p, f])
                if ctx.known_cell(cid, h(key, 10)):
                    continue
                ctx.violation(("construct", key), {"case": {"pattern": p, "flags": f}, "problem": prob, "observed": e})
    li = 0
    for r in lres:
        for e in (r or {}).get("res", []):
            ctx.count()
            if e["o"] != "ok":
                ctx.violation(("literal", str((e.get("err") or {}).get("cls") if isinstance(e.get("err"), dict) else e.get("err"))),
                              {"case": lits[li], "observed": e})
            li += 1
    bounded = 0
    for c, r in zip(fam, fres):
        ctx.count()
        if not r or "o" not in r:
            ctx.violation(("family-no-return", c["pattern"], c["usen"]), {"case": c, "detail": r})
            continue
        prob = None
        L = len(c["subject"])
        if r.get("viol"):
            prob = r["viol"]
        elif r["o"] == "abort":
            prob = "work not bounded by the budgets: aborted after %d steps (%s)" % (r["ticks"], r["abort"])
        elif r["o"] == "hosterr":
            prob = "host exception %s" % (r["err"].get("cls"),)
        elif r["o"] == "jserr":
            cls = r["err"].get("cls")
            if c["D"] is not None and cls == "TimeLimitError":
                pass
            elif c["usen"] == "caught":
                prob = "error escaped the script's try/catch: %s" % cls
            elif cls not in ("JSError",):
                prob = "unexpected error class %s" % cls
            elif r["err"].get("name") not in ("RangeError", "SyntaxError"):
                prob = "unexpected script error %s" % r["err"].get("name")
        if prob is None:
            bounded += 1
            if r["max_attempt_steps"] > 1000:
                ctx.nontrivial((c["pattern"], c["usen"], L, c["D"]))
            continue
        cid = h(["fam", c["pattern"], c["usen"], L, c["D"]])
        if ctx.known_cell(cid, h(prob.split(":")[0], 10)):
            continue
        ctx.violation(("family", prob.split(":")[0][:50], c["pattern"], c["usen"]), {"case": {k: (v if k != "subject" else v[:40] + "...") for k, v in c.items()},
                                                                                       "subject_len": L, "problem": prob, "observed": r})
    gi = 0
    grid_ops = 0
    grid_out = {}
    for r in gres:
        chunk = gitems[gi:gi + 25]
        gi += 25
        if not r or "res" not in r:
            ctx.violation(("matchgrid-no-return",), {"case": [repr(x) for x in chunk], "detail": r, "monitor": "watchdog"})
            continue
        for (p, f, sd), e in zip(chunk, r["res"]):
            ctx.count()
            prob = None
            if e["o"] == "ok":
                try:
                    grid_ops += int(e["py"][1][0][1])
                except Exception:   # noqa
                    pass
                ctx.nontrivial(("grid", p, f))
            elif e["o"] == "abort":
                grid_out["budget"] = grid_out.get("budget", 0) + 1       # work budget of the harness: not judged here (families do)
            elif e["o"] == "hosterr" or (isinstance(e.get("err"), dict) and e["err"].get("kind") == "host"):
                prob = "host exception %s at %s" % (e["err"].get("cls"), e["err"].get("site"))
            elif e["o"] == "jserr":
                prob = "error escaped the script's try/catch: %s %s" % (e["err"].get("cls"), e["err"].get("name"))
            else:
                prob = "outcome %s" % e["o"]
            grid_out[e["o"]] = grid_out.get(e["o"], 0) + 1
            if prob:
                ctx.violation(("matchgrid", prob.split(" at ")[0][:60]), {"case": {"pattern": p, "flags": f, "sample_seed": sd, "script": GRID_SCRIPT}, "problem": prob, "observed": e})
    ctx.cov["matchgrid_pattern_flag_cells"] = len(gitems)
    ctx.cov["matchgrid_operations_completed"] = grid_ops
    ctx.cov["matchgrid_outcomes"] = grid_out
    mem_checked = 0
    for sh, r in zip(MEM_SHAPES, mres):
        ctx.count()
        if not r or "res" not in r:
            ctx.violation(("construct-memory", "worker died", sh), {"shape": sh, "detail": r, "monitor": "tracemalloc around RegExp construction"})
            continue
        peaks = [x[1] for x in r["res"]]
        mem_checked += 1
        if any(x[0] == "MemoryError" for x in r["res"]) or peaks[-1] > 2 * peaks[0] + (8 << 20):
            ctx.violation(("construct-memory", "grows with the count", sh), {"shape": sh, "counts": MEM_COUNTS, "outcomes_and_peak_bytes": r["res"],
                                                                              "monitor": "tracemalloc peak while constructing; refusal must cost the same for every count"})
        else:
            ctx.nontrivial(("mem", sh))
    ctx.cov["construct_memory_shapes_checked"] = mem_checked
    if accepted == 0 or rejected == 0:
        ctx.inconclusive_because("pattern workload did not produce both accepted and rejected patterns")
    ctx.cov["rule"] = ("pattern strings: random over the regex metacharacter vocabulary, single-character mutations/truncations of valid "
                       "patterns, huge counted quantifiers alone and nested, thousands of groups/alternatives, nesting to depth 2000, "
                       "malformed escapes; flag strings; regex literals through eval; 15 catastrophic families x regex-consuming APIs x "
                       "subject lengths with and without a virtual time limit; non-trivial = distinct patterns accepted or cleanly "
                       "rejected, family runs that used > 1000 steps in one attempt and stayed bounded")
    ctx.cov["patterns"] = len(items)
    ctx.cov["accepted"] = accepted
    ctx.cov["rejected_with_RegExpError"] = rejected
    ctx.cov["literals"] = len(lits)
    ctx.cov["family_runs"] = len(fam)
    ctx.cov["family_runs_bounded"] = bounded
    ctx.sample({"pattern": items[3][0]})
    ctx.sample({"pattern": items[len(items) // 2][0]})
    ctx.sample({k: (v if k != "subject" else v[:30]) for k, v in fam[7].items()})
    ctx.assumptions += ["an attempt starts when the main loop is at pc 0 with an empty backtrack stack (hook-side attempt counter)"]
