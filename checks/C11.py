"""C11 — values cross the Python/JavaScript boundary faithfully.

Python-side oracles only (no reference engine): typed deep equality against the stated mapping; an aliasing
monitor (mutate every container in what get/eval returned and in what was passed to set, read again,
compare; id()-disjointness of successive results); an argument recorder inside exposed callables (order,
count, typed values); icontract postcondition on the real Context._to_python (JSON-like output only).
"""
import json
import re
import math
import random

from vf.common import h
from vf.runner import engine_pool

BOUND_NUMS = [0, 1, -1, 2 ** 31, -2 ** 31, 2 ** 53, 2 ** 53 + 1, -(2 ** 53) - 1, 2 ** 70, 10 ** 21, 0.0, -0.0, 0.5, -1.5, 5e-324, 1e-7, 1e21,
              1.7976931348623157e308, float("inf"), float("-inf"), float("nan"), 123456789.125, 3.0, 255, 256]
BOUND_STRS = ["", "a", "\x00", "a\x00b", "é", "中文", "\U0001F600", "x\U0001F600y\U00010000", " \t\n", "quote\"s'", "\\back",
              "line\nbreak", "0", "undefined", "null", "__proto__", "constructor", "length", "  ", "z" * 10000]


def gen_value(rng, depth):
    r = rng.random()
    if depth <= 0 or r < 0.45:
        k = rng.random()
        if k < 0.1:
            return None
        if k < 0.2:
            return rng.choice([True, False])
        if k < 0.55:
            return rng.choice(BOUND_NUMS) if rng.random() < 0.7 else rng.randint(-10 ** 6, 10 ** 6)
        if k < 0.65:
            return rng.random() * 10 ** rng.randint(-10, 10)
        return rng.choice(BOUND_STRS[:-1]) if rng.random() < 0.95 else BOUND_STRS[-1]
    if r < 0.72:
        return [gen_value(rng, depth - 1) for _ in range(rng.randint(0, 4))]
    d = {}
    for _ in range(rng.randint(0, 4)):
        kk = rng.random()
        if kk < 0.7:
            key = rng.choice(["a", "b", "k1", "", "length", "__proto__", "constructor", "0", "10", "x y", "é", "\U0001F600"])
        elif kk < 0.8:
            key = rng.randint(-2, 20)
        elif kk < 0.87:
            key = rng.choice([1.5, True, None, (1, 2)])
        else:
            key = "key%d" % rng.randint(0, 99)
        d[key] = gen_value(rng, depth - 1)
    return d


# typed encoding usable across the JSON pipe (NaN/inf/-0, non-string keys, tuples)
def tx(v):
    if v is None:
        return ["N"]
    if v is True or v is False:
        return ["b", v]
    if isinstance(v, int):
        return ["i", str(v)]
    if isinstance(v, float):
        import struct
        return ["d", "nan" if v != v else struct.pack(">d", v).hex()]
    if isinstance(v, str):
        return ["s", v]
    if isinstance(v, (list, tuple)):
        return ["l" if isinstance(v, list) else "t", [tx(x) for x in v]]
    if isinstance(v, dict):
        return ["m", [[tx(k), tx(x)] for k, x in v.items()]]
    raise TypeError(v)


def rx(e):
    t = e[0]
    if t == "N":
        return None
    if t == "b":
        return e[1]
    if t == "i":
        return int(e[1])
    if t == "d":
        import struct
        return float("nan") if e[1] == "nan" else struct.unpack(">d", bytes.fromhex(e[1]))[0]
    if t == "s":
        return e[1]
    if t == "l":
        return [rx(x) for x in e[1]]
    if t == "t":
        return tuple(rx(x) for x in e[1])
    if t == "m":
        return {rx(k): rx(x) for k, x in e[1]}
    raise ValueError(e)


def expected(e):
    """The stated mapping applied to a tx-encoded Python value -> encpy-style expectation."""
    t = e[0]
    if t in ("N", "b", "i", "d", "s"):
        return e
    if t == "l":
        return ["l", [expected(x) for x in e[1]]]
    if t == "t":
        return ["N"]      # unsupported type: documented as undefined -> None (only "no leak, no exception" is judged)
    if t == "m":
        out = {}
        for k, x in e[1]:
            out[str(rx(k))] = expected(x)
        return ["m", [[k, v] for k, v in out.items()]]


def norm(e):
    """Order-insensitive view for dicts is NOT wanted (insertion order is part of the mapping); identity."""
    return e


# ---------------- worker side -------------------------------------------------------------------
_C = {"installed": False, "evals": 0, "broken": []}


def _install():
    if _C["installed"]:
        return
    import icontract
    from vf import engine as E
    from microjs import values as V

    class PostBroken(Exception):
        pass

    def json_like(x, depth=0):
        if x is None or isinstance(x, (bool, int, float, str)):
            return True
        if isinstance(x, list):
            return all(json_like(y, depth + 1) for y in x)
        if isinstance(x, dict):
            return all(isinstance(k, str) and json_like(y, depth + 1) for k, y in x.items())
        if isinstance(x, V.JSFunction) or (callable(x) and not isinstance(x, type)):
            return True   # functions are handed back as opaque callables (documented)
        return False

    def to_python_returns_json_like(self, value, result):
        _C["evals"] += 1
        if not json_like(result):
            _C["broken"].append(type(result).__name__)
        return True
    E.mctx.Context._to_python = icontract.ensure(to_python_returns_json_like, error=PostBroken)(E.mctx.Context._to_python)
    _C["installed"] = True


def w_roundtrip(case, opts):
    from vf import engine as E
    _install()
    _C["broken"].clear()
    v = rx(case["v"])
    ctx = E.new_context()
    out = {}
    try:
        ctx.set("val", v)
        g1 = ctx.get("val")
        out["get"] = E.encpy(g1)
        out["eval"] = E.encpy(ctx.eval("val"))
        # aliasing: mutate everything in g1 and in v, read again
        def wreck(x):
            if isinstance(x, list):
                for y in x:
                    wreck(y)
                x.append("WRECK")
            elif isinstance(x, dict):
                for y in list(x.values()):
                    wreck(y)
                x["WRECK"] = 1
        wreck(g1)
        g2 = ctx.get("val")
        out["get_after_mutating_result"] = E.encpy(g2)
        if isinstance(v, (list, dict)):
            wreck(v)
        g3 = ctx.get("val")
        out["get_after_mutating_input"] = E.encpy(g3)

        def ids(x, acc):
            if isinstance(x, (list, dict)):
                acc.add(id(x))
                for y in (x if isinstance(x, list) else x.values()):
                    ids(y, acc)
            return acc
        out["shared_containers"] = len(ids(g2, set()) & ids(g3, set())) + len(ids(g3, set()) & ids(v, set()))
        # script-side view of the value
        out["script_typeof"] = ctx.eval("typeof val")
        # the same value RETURNED by an exposed callable must arrive as the same JavaScript value as when it is set
        fresh = E.new_context()
        fresh.set("val", rx(case["v"]))
        fresh.set("give", lambda: rx(case["v"]))
        fresh.set("giveIn", lambda: [rx(case["v"]), {"k": rx(case["v"])}, [[rx(case["v"])]]])
        out["set_then_eval"] = E.encpy(fresh.eval("val"))
        out["via_callable"] = E.encpy(fresh.eval("give()"))
        out["via_callable_nested"] = E.encpy(fresh.eval("giveIn()"))
        out["set_nested"] = E.encpy(fresh.eval("[val, {k: val}, [[val]]]"))
        out["via_method_and_callback"] = E.encpy(fresh.eval("[give.call(null), [1].map(function () { return give(); })[0], (function (f) { return f(); })(give)]"))
        # ... judged from the SCRIPT's side (a typed description computed by script code), through every route on which the engine
        # itself calls the exposed callable: directly, call/apply/bind, as the callback of built-ins, as an accessor
        fresh.set("giveAny", lambda *a: rx(case["v"]))
        fresh.eval(DESC_JS)
        out["desc_set"] = fresh.eval("desc(val)")
        out["desc_routes"] = {}
        for rn, rsrc in DESC_ROUTES.items():
            try:
                out["desc_routes"][rn] = fresh.eval(rsrc)
            except Exception as e:   # noqa
                out["desc_routes"][rn] = "EXC:" + type(e).__name__ + ":" + str(e)[:80]
    except Exception as e:
        out["exc"] = [type(e).__name__, str(e)[:200]]
    out["contract_broken"] = list(_C["broken"])
    out["contract_evals"] = _C["evals"]
    return out


DESC_JS = ("function desc(v, d) { d = d || 0; if (v === undefined || v === null) { return 'N'; } var t = typeof v; "     # (None arrives as null through set and as undefined as a return value: both are its counterparts)
           "if (t === 'number') { return 'd:' + (v !== v ? 'NaN' : (v === 0 && 1 / v < 0) ? '-0' : String(v)); } if (t === 'string') { return 's:' + v.length + ':' + v; } "
           "if (t === 'boolean') { return 'b:' + v; } if (t === 'function') { return 'f'; } "
           "if (Array.isArray(v)) { var o = []; for (var i = 0; i < v.length; i++) { o.push(d > 6 ? '~' : desc(v[i], d + 1)); } return '[' + o.join(',') + ']'; } "
           "if (t === 'object') { var ks = Object.keys(v), o2 = []; for (var j = 0; j < ks.length; j++) { o2.push(ks[j] + '=' + (d > 6 ? '~' : desc(v[ks[j]], d + 1))); } return '{' + o2.join(',') + '}'; } "
           "return '?' + t; }")
DESC_ROUTES = {
    "direct": "desc(giveAny())", "call": "desc(giveAny.call(null, 1))", "apply": "desc(giveAny.apply(null, [1, 2]))", "bind": "desc(giveAny.bind(null, 1)())",
    "map-callback": "desc([7].map(giveAny)[0])", "reduce-callback": "desc([7].reduce(giveAny, 0))", "reduce-noinit": "desc([7, 8].reduce(giveAny))", "reduceRight-callback": "desc([7].reduceRight(giveAny, 0))",
    "getter": "var og = {}; Object.defineProperty(og, 'p', {get: giveAny, enumerable: true, configurable: true}); desc(og.p)",
    "getter-inherited": "var op = {}; Object.defineProperty(op, 'p', {get: giveAny, enumerable: true, configurable: true}); desc(Object.create(op).p)",
    "method": "desc(({m: giveAny}).m(1))", "map-in-map": "desc([[7]].map(function (a) { return a.map(giveAny)[0]; })[0])", "values-of-getter": "var ov = {}; Object.defineProperty(ov, 'p', {get: giveAny, enumerable: true, configurable: true}); desc(Object.values(ov)[0])",
    "flatMap-wrap": "desc([7].map(function () { return [giveAny()]; })[0][0])", "from-callback": "typeof Array.from === 'function' ? desc(Array.from([7], giveAny)[0]) : desc(val)",
    "new-Function": "desc(new Function('return giveAny()')())", "eval": "desc((0, eval)('giveAny()'))", "ternary-callback": "desc([7].map(giveAny).concat([])[0])",
}


def w_script_result(case, opts):
    """case = {src}: script literal -> eval result."""
    from vf import engine as E
    _install()
    r = E.run_js(case["src"], {"log": False})
    return {"out": r["out"], "py": r.get("py"), "ret": r.get("ret"), "err": r.get("err")}


def w_args(case, opts):
    """Exposed callable receives arguments in order; its return value arrives as a JS value."""
    from vf import engine as E
    ctx = E.new_context()
    seen = []

    def rec(*args):
        seen.append([E.enc(a, {}) for a in args])
        return len(args)
    rets = {"none": None, "t": True, "i": 7, "f": 2.5, "s": "str", "nan": float("nan"), "neg0": -0.0, "big": 2 ** 53,
            "list": [1, [2]], "dict": {"k": 1}, "tuple": (1, 2)}

    def give(which):
        return rets[which]
    ctx.set("rec", rec)
    ctx.set("give", give)
    out = {}
    try:
        out["n"] = E.encpy(ctx.eval(case["call"]))
        out["seen"] = seen
        out["rets"] = {}
        for k in rets:
            out["rets"][k] = E.encpy(ctx.eval("(function(){ var r = give('%s'); return [typeof r, r === undefined, r === null, "
                                              "r !== r, 1 / r, String(r), (r && r.length), (r && r.k)]; })()" % k))
    except Exception as e:
        out["exc"] = [type(e).__name__, str(e)[:200]]
    return out


def pyenc(v):
    """encpy of a JSON-like Python primitive, computed without the engine (parent side)."""
    import struct
    if v is None:
        return ["N"]
    if v is True or v is False:
        return ["b", v]
    if isinstance(v, int):
        return ["i", str(v)]
    if isinstance(v, float):
        return ["d", struct.pack(">d", v).hex()]
    return ["s", v]


def w_callhist(case, opts):
    """A sequence of invocations of ONE exposed callable through many call forms (bound once, invoked repeatedly): the recorder must
    see exactly the argument vectors of the model, call by call (nothing carried over from earlier calls)."""
    from vf import engine as E
    ctx = E.new_context()
    seen = []

    def rec(*args):
        seen.append([E.encpy(ctx._to_python(a)) for a in args])
        return len(seen)
    ctx.set("rec", rec)
    out = {}
    try:
        out["ret"] = E.encpy(ctx.eval(case["src"]))
    except Exception as e:
        out["exc"] = [type(e).__name__, str(e)[:200]]
    out["seen"] = seen
    return out


def w_interleave(case, opts):
    """One context, a generated interleaving of set / eval / get - including get issued from inside an exposed callable while an
    evaluation is in progress, after the script changed the value in place.  Oracles: (a) get(name) inside the callable equals the
    same value passed to the callable as an argument (both typed); (b) get(name) equals eval(name) after every step; (c) what get
    returns is private: changing it never shows in a later get."""
    from vf import engine as E
    ctx = E.new_context()
    recs = []

    def spoil(v):
        if isinstance(v, list):
            v.append("SPOILED")
            for x in v[:-1]:
                spoil(x)
        elif isinstance(v, dict):
            v["SPOILED"] = 1
            for x in list(v.values()):
                spoil(x)

    def peek(name, arg):
        got = ctx.get(name)
        again = ctx.get(name)
        recs.append(["peek", name, E.encpy(got), E.encpy(ctx._to_python(arg)), E.encpy(again)])
        spoil(got)
        return len(recs)
    ctx.set("peek", peek)
    out = {"steps": []}
    try:
        for st in case["steps"]:
            if st[0] == "set":
                ctx.set(st[1], st[2])
            elif st[0] == "eval":
                ctx.eval(st[1])
            elif st[0] == "get-spoil":
                spoil(ctx.get(st[1]))
            row = {}
            for nm in case["names"]:
                g = ctx.get(nm)
                row[nm] = [E.encpy(g), E.encpy(ctx.eval("typeof %s === 'undefined' ? undefined : %s" % (nm, nm)))]
            out["steps"].append(row)
    except Exception as e:
        out["exc"] = [type(e).__name__, str(e)[:300]]
    out["recs"] = recs
    return out


def gen_interleave(rng):
    names = ["g0", "g1", "g2"]
    vals = [[1, {"k": None}], [], {}, {"a": [1, 2], "b": {"c": []}}, [[1], [2, [3]]], "str", 5, None, [None, True, 2.5, "x"], {"n": {"m": {"o": [0]}}}]
    muts = ["%s.push('late');", "%s.push([1]);", "%s[0] = {z: 1};", "%s.k = 2.5;", "delete %s.k;", "%s.length = 0;", "%s.a.push(9);", "%s.b.c.push({});", "%s[1].k = 'kk';", "%s.pop();",
            "%s = [7, 8];", "%s = {fresh: true};", "%s.n.m.o[0]++;", "%s.sort();", "%s.reverse();", "%s[%s.length] = %s.length;", "%s.self = 1;", "Object.assign(%s, {as: [1]});", "%s.splice(0, 1);"]
    steps = []
    for nm in names:
        steps.append(["set", nm, rng.choice(vals)])
    for _ in range(rng.randint(2, 6)):
        r = rng.random()
        nm = rng.choice(names)
        if r < 0.15:
            steps.append(["set", nm, rng.choice(vals)])
        elif r < 0.3:
            steps.append(["get-spoil", nm])
        else:
            parts = []
            for _ in range(rng.randint(1, 6)):
                n2 = rng.choice(names)
                if rng.random() < 0.45:
                    parts.append("peek('%s', %s);" % (n2, n2))
                else:
                    parts.append("try { " + rng.choice(muts).replace("%s", n2) + " } catch (e) { }")
            if rng.random() < 0.3:
                parts = ["[1, 2].forEach(function () { " + " ".join(parts) + " });"]
            steps.append(["eval", " ".join(parts) + " 0"])
    return {"names": names, "steps": steps}


def gen_callhist(rng):
    pre = ("var B1 = rec.bind(null, 'p1'), B0 = rec.bind(null), B2 = rec.bind({t: 1}, 'p1', 2), B3 = B1.bind(null, 'q'), holder = {m: rec, b: B1}, "
           "viaCall = function () { return rec.apply(null, arguments); };\n")
    forms = {"rec": [], "rec.call-null": [], "rec.apply": [], "B1": ["p1"], "B0": [], "B2": ["p1", 2], "B3": ["p1", "q"], "holder.m": [], "holder.b": ["p1"], "viaCall": [], "B1.call": ["p1"],
             "B2.apply": ["p1", 2], "Function.call": []}
    lines, model = [], []
    for _ in range(rng.randint(3, 12)):
        f = rng.choice(list(forms))
        args = [rng.choice([0, 1, -1, 2.5, "", "s", True, False, None]) for _ in range(rng.randint(0, 3))]
        al = ", ".join(json.dumps(a) for a in args)
        if f == "rec.call-null":
            lines.append("rec.call(null%s);" % (", " + al if al else ""))
        elif f == "rec.apply":
            lines.append("rec.apply(null, [%s]);" % al)
        elif f == "B1.call":
            lines.append("B1.call({}%s);" % (", " + al if al else ""))
        elif f == "B2.apply":
            lines.append("B2.apply(null, [%s]);" % al)
        elif f == "Function.call":
            lines.append("Function.prototype.call ? rec.call.call(rec, null%s) : rec(%s);" % ((", " + al if al else ""), al))
        else:
            lines.append("%s(%s);" % (f, al))
        model.append(forms[f] + args)
    return pre + "\n".join(lines) + "\n'done'", model


JS_VALUES = [("undefined", ["u"]), ("null", ["n"]), ("true", ["b", True]), ("0", None), ("-0", None), ("1.5", None), ("NaN", ["d", "nan"]),
             ("'s'", ["s", "s"]), ("''", ["s", ""]), ("[1, 2]", "a"), ("{a: 1}", "o"), ("function(){}", ["f"]), ("Infinity", None),
             ("'\\ud83d\\ude00'", None)]


def js_literal(e):
    """Render an expectation (encpy form) as a JavaScript literal."""
    import json
    import struct
    t = e[0]
    if t == "N":
        return "null"
    if t == "b":
        return "true" if e[1] else "false"
    if t == "i":
        return e[1] if abs(int(e[1])) <= 2 ** 53 else None
    if t == "d":
        if e[1] == "nan":
            return "NaN"
        f = struct.unpack(">d", bytes.fromhex(e[1]))[0]
        if f == float("inf"):
            return "Infinity"
        if f == float("-inf"):
            return "-Infinity"
        if f == 0 and math.copysign(1, f) < 0:
            return "-0"
        return repr(f)
    if t == "s":
        return json.dumps(e[1])
    if t == "l":
        parts = [js_literal(x) for x in e[1]]
        return None if None in parts else "[" + ", ".join(parts) + "]"
    if t == "m":
        parts = []
        for k, x in e[1]:
            lit = js_literal(x)
            if lit is None or k == "__proto__":
                return None
            parts.append(json.dumps(k) + ": " + lit)
        return "({" + ", ".join(parts) + "})"


def main(ctx):
    rng = random.Random(ctx.seed)
    fixed = random.Random(1111)
    vals = [x for x in BOUND_NUMS] + [x for x in BOUND_STRS] + [None, True, False, [], {}, [[]], {"a": {}}, [None, [None]],
                                                                 {1: "int-key", 1.5: "float", True: "t", None: "n", (1, 2): "tup"},
                                                                 (1, 2), [(1,)], {"dup": 1, "__proto__": {"x": 1}}]
    shared = [1, 2]
    vals.append([shared, shared, {"s": shared}])
    deep = cur = []
    for _ in range(60):
        nxt = []
        cur.append(nxt)
        cur = nxt
    vals.append(deep)
    n = 3000 if ctx.quick else 60000
    for i in range(n):
        vals.append(gen_value(fixed if i % 2 else rng, (fixed if i % 2 else rng).randint(0, 5)))
    cases = []
    for v in vals:
        try:
            cases.append({"v": tx(v)})
        except TypeError:
            pass
    # script results over the same space
    scases = []
    for c in cases[: (1500 if ctx.quick else 20000)]:
        exp = expected(c["v"])
        lit = js_literal(exp)
        if lit is not None:
            scases.append({"src": lit, "want": exp})
    scases += [{"src": "undefined", "want": ["N"]}, {"src": "null", "want": ["N"]}, {"src": "[undefined, null, [undefined]]", "want": ["l", [["N"], ["N"], ["l", [["N"]]]]]},
               {"src": "({a: undefined, b: {c: null}})", "want": ["m", [["a", ["N"]], ["b", ["m", [["c", ["N"]]]]]]]},
               {"src": "var o = {get g(){ return 1; }, d: 2}; o", "want": ["m", [["d", ["i", "2"]]]]},
               {"src": "var a = [1]; a.extra = 5; a", "want": ["l", [["i", "1"]]]},
               {"src": "Object.create({inherited: 1})", "want": ["m", []]}]
    # "plain objects to dicts of own DATA properties": every way a name can be (or stop being, or become again) a data property
    def penc(v):
        if v is None:
            return ["N"]
        if isinstance(v, bool):
            return ["b", v]
        if isinstance(v, int):
            return ["i", str(v)]
        if isinstance(v, float):
            return pyenc(v)
        if isinstance(v, str):
            return ["s", v]
        if isinstance(v, list):
            return ["l", [penc(x) for x in v]]
        return ["m", [[k, penc(x)] for k, x in v.items()]]
    DATA_CASES = [
        ("({a: 1, b: 2, set a(v) {}})", {"b": 2}), ("({a: 1, b: 2, get a() { return 5; }})", {"b": 2}), ("({get a() { return 1; }, a: 2, b: 3})", {"a": 2, "b": 3}), ("({set a(v) {}, a: 2})", {"a": 2}),
        ("var o = {k: 1, n: 'x'}; Object.defineProperty(o, 'k', {set: function (v) {}}); o", {"n": "x"}), ("var o = {k: 1, n: 'x'}; Object.defineProperty(o, 'k', {get: function () { return 2; }}); o", {"n": "x"}),
        ("var o = {k: 1, n: 'x'}; Object.defineProperty(o, 'k', {get: function () { return 2; }, set: function (v) {}}); o", {"n": "x"}),
        ("var o = {k: 1}; Object.defineProperty(o, 'k', {set: function (v) {}}); Object.defineProperty(o, 'k', {value: 7}); o", {"k": 7}),
        ("var o = {get k() { return 1; }}; Object.defineProperty(o, 'k', {value: 7, writable: true}); o.k = 8; o", {"k": 8}), ("var o = {k: 1}; delete o.k; o", {}), ("var o = {k: 1}; delete o.k; o.k = 2; o", {"k": 2}),
        ("var o = {set k(v) { this.stored = v; }}; o.k = 5; o", {"stored": 5}), ("var o = {a: 1}; Object.defineProperty(o, 'a', {set: function (v) {}}); [o.a === undefined, Object.keys(o).length, o]", [True, 1, {}]),
        ("var p = {get a() { return 1; }, a: 2}; [p.a, p]", [2, {"a": 2}]), ("[{get x() { return 1; }, y: [{set z(v) {}, w: 1}]}]", [{"y": [{"w": 1}]}]),
        ("var o = Object.create({}, {d: {value: 1, enumerable: true}, g: {get: function () { return 2; }, enumerable: true}}); o", {"d": 1}),
        ("var o = {}; Object.defineProperties(o, {d: {value: [1], enumerable: true}, s: {set: function (v) {}, enumerable: true}}); o", {"d": [1]}),
        ("var o = Object.assign({a: 1}, {get a() { return 9; }}); o", {"a": 9}), ("var o = Object.assign({get a() { return 9; }, set a(v) {}}, {a: 1}); o", {}),
        ("var o = {a: 1, b: {set a(v) {}, a: 3}}; o", {"a": 1, "b": {"a": 3}}),
    ]
    for src, val in DATA_CASES:
        scases.append({"src": src, "want": penc(val)})
    # argument vectors
    acases = []
    for i in range(300 if ctx.quick else 5000):
        r = fixed if i % 2 else rng
        k = r.randint(0, 6)
        vec = [r.choice(JS_VALUES) for _ in range(k)]
        argl = ", ".join(s for s, _ in vec)
        form = ["rec(%s)", "var holder = {r: rec}; holder.r(%s)", "rec.call(null%s)", "rec.apply(null, [%s])", "rec.bind(null)(%s)",
                "(function () { return rec(%s); })()"][i % 6]
        if "call(null" in form:
            argl2 = (", " + argl) if argl else ""
            call = form % argl2
        else:
            call = form % argl
        acases.append({"call": call, "vec": [s for s, _ in vec]})
    ep = engine_pool()
    try:
        rres = ep.map({"mod": "checks.C11", "fn": "w_roundtrip"}, cases, batch=100, timeout=300)
        sres = ep.map({"mod": "checks.C11", "fn": "w_script_result"}, scases, batch=100, timeout=300)
        ares = ep.map({"mod": "checks.C11", "fn": "w_args"}, acases, batch=50, timeout=300)
        hcases = []
        for i in range(300 if ctx.quick else 6000):
            src, model = gen_callhist(fixed if i % 2 else rng)
            hcases.append({"src": src, "model": model})
        hres = ep.map({"mod": "checks.C11", "fn": "w_callhist"}, hcases, batch=50, timeout=300)
        icases = [gen_interleave(fixed if i % 2 else rng) for i in range(400 if ctx.quick else 8000)]
        ires = ep.map({"mod": "checks.C11", "fn": "w_interleave"}, icases, batch=50, timeout=300)
    finally:
        ep.close()
    evals = 0
    for c, r in zip(cases, rres):
        ctx.count()
        if not r:
            ctx.violation(("roundtrip-worker",), {"case": c, "detail": r})
            continue
        evals = max(evals, r.get("contract_evals", 0))
        want = expected(c["v"])
        prob = None
        top_unsupported = c["v"][0] == "t"
        if "exc" in r:
            prob = "exception " + str(r["exc"])
        elif r.get("contract_broken"):
            prob = "_to_python returned a non-JSON-like value: " + str(r["contract_broken"])
        elif "HOST" in str(r["get"]) or "HOST" in str(r["eval"]):
            prob = "host object leaked: %r" % (r["get"],)
        elif not has_unsupported(c["v"]):
            if r["get"] != want:
                prob = "get after set: %s != %s" % (short(r["get"]), short(want))
            elif r["eval"] != want:
                prob = "eval(name) after set: %s != %s" % (short(r["eval"]), short(want))
            elif r["get_after_mutating_result"] != want:
                prob = "mutating the returned structure changed the context"
            elif r["get_after_mutating_input"] != want:
                prob = "mutating the value passed to set changed the context"
            elif r["shared_containers"]:
                prob = "successive results share container objects"
            elif r.get("via_callable") != r.get("set_then_eval"):
                prob = "returned by an exposed callable: %s, but set + eval: %s" % (short(r.get("via_callable")), short(r.get("set_then_eval")))
            elif r.get("via_callable_nested") != r.get("set_nested"):
                prob = "returned inside a container by an exposed callable: %s, but set + eval: %s" % (short(r.get("via_callable_nested")), short(r.get("set_nested")))
            elif any(dv != r.get("desc_set") for dv in (r.get("desc_routes") or {"missing": None}).values()):
                badr = sorted(k for k, dv in (r.get("desc_routes") or {"missing": None}).items() if dv != r.get("desc_set"))
                prob = "seen from the script, the value returned through %s is %s, but set + read is %s" % (badr[0], short((r.get("desc_routes") or {}).get(badr[0])), short(r.get("desc_set")))
            elif r.get("via_method_and_callback") != ["l", [r.get("set_then_eval")] * 3]:
                prob = "returned through call()/callback/indirect call: %s, but set + eval: %s" % (short(r.get("via_method_and_callback")), short(r.get("set_then_eval")))
        if c["v"][0] in ("l", "m"):
            ctx.nontrivial(h(c["v"]))
        if prob:
            cid = h(["rt", c["v"]])
            if ctx.known_cell(cid, h(prob.split(":")[0], 10)):
                continue
            ctx.violation(("roundtrip", prob.split(":")[0][:50]), {"case": short(c["v"], 600), "problem": prob[:600], "observed": short(r.get("get"), 400)})
    for c, r in zip(scases, sres):
        ctx.count()
        if not r or r.get("out") != "ok":
            ctx.violation(("script-result", "eval failed"), {"case": c["src"][:300], "detail": r})
            continue
        if numnorm(r["py"]) != numnorm(c["want"]):
            cid = h(["sr", c["src"]])
            if ctx.known_cell(cid, h(r["py"], 10)):
                continue
            ctx.violation(("script-result", "conversion"), {"case": c["src"][:600], "want": short(c["want"], 400), "got": short(r["py"], 400)})
        else:
            ctx.nontrivial(h(c["src"]))
    for c, r in zip(hcases, hres):
        ctx.count()
        want = [[pyenc(a) for a in vec] for vec in c["model"]]
        if not r or "exc" in r or r.get("seen") != want:
            ctx.violation(("call-history", "argument vectors differ from the model"), {"case": c["src"][-700:], "model": c["model"], "seen": (r or {}).get("seen"), "exc": (r or {}).get("exc"),
                                                                                       "monitor": "recorder inside the exposed callable vs call-by-call model"})
        else:
            ctx.nontrivial(h(c["src"]))
    peeks = 0
    for c, r in zip(icases, ires):
        ctx.count()
        prob = None
        if not r or "exc" in r:
            prob = "interleaving raised %s" % ((r or {}).get("exc"),)
        else:
            for rec_ in r["recs"]:
                peeks += 1
                if numnorm(rec_[2]) != numnorm(rec_[3]):
                    prob = "get(%s) inside a callable returned %s while the script's value was %s" % (rec_[1], short(rec_[2]), short(rec_[3]))
                    break
                if rec_[2] != rec_[4]:
                    prob = "two consecutive get(%s) inside a callable disagree: %s / %s" % (rec_[1], short(rec_[2]), short(rec_[4]))
                    break
            if not prob:
                for si, row in enumerate(r["steps"]):
                    for nm, (g, e) in row.items():
                        if numnorm(g) != numnorm(e):
                            prob = "after step %d get(%s) = %s but eval(%s) = %s" % (si, nm, short(g), nm, short(e))
                            break
                        if "SPOILED" in json.dumps(g):
                            prob = "after step %d get(%s) shows a change made to an earlier get result: %s" % (si, nm, short(g))
                            break
                    if prob:
                        break
        if prob:
            ctx.violation(("interleaving", re.sub(r"\d+", "N", prob.split("(")[0])[:40]), {"case": c, "problem": prob, "monitor": "re-entrant get vs argument conversion; get vs eval after every step; privacy of results"})
        else:
            ctx.nontrivial(h(c))
    ctx.cov["interleavings"] = len(icases)
    ctx.cov["reentrant_get_observations"] = peeks
    exp_map = dict(JS_VALUES)
    ret_findings = 0
    for c, r in zip(acases, ares):
        ctx.count()
        if not r or "exc" in r:
            ctx.violation(("args", "exception"), {"case": c, "detail": r})
            continue
        seen = r["seen"]
        prob = None
        if len(seen) != 1 or len(seen[0]) != len(c["vec"]) or r["n"] != ["i", str(len(c["vec"]))]:
            prob = "callable invoked %d times with %s args for %d" % (len(seen), [len(s) for s in seen], len(c["vec"]))
        else:
            for s, got in zip(c["vec"], seen[0]):
                e = exp_map[s]
                if e is None:
                    if got[0] != "d" and got[0] != "s":
                        prob = "argument %s arrived as %r" % (s, got)
                elif e in ("a", "o"):
                    if got[0] != e:
                        prob = "argument %s arrived as %r" % (s, got)
                elif got != e:
                    prob = "argument %s arrived as %r" % (s, got)
        rets = r["rets"]
        want_ret = {"none": "undefined", "t": "boolean", "i": "number", "f": "number", "s": "string", "nan": "number", "neg0": "number",
                    "big": "number", "list": "object", "dict": "object"}
        for k, ty in want_ret.items():
            got = rets[k][1][0]
            if got != ["s", ty] and not prob:
                prob = "return value %s arrived with typeof %r, want %s" % (k, got, ty)
        if prob:
            ctx.violation(("args", prob.split(" arrived")[0][:40]), {"case": c, "problem": prob, "seen": seen})
        else:
            ctx.nontrivial(h(c["call"]))
    if evals == 0:
        ctx.inconclusive_because("_to_python contract was never evaluated")
    ctx.cov["rule"] = ("JSON-like Python values (boundary numbers/strings, empty containers, non-string keys, shared sub-objects, depth "
                       "60 nesting, random to depth 5) through set/get/eval with aliasing mutations; the same space as script "
                       "literals through eval; argument vectors of length 0-6 over all JS value kinds through an exposed callable; "
                       "non-trivial = container values / agreeing script results / correctly delivered argument vectors")
    ctx.cov["roundtrip_values"] = len(cases)
    ctx.cov["script_results"] = len(scases)
    ctx.cov["argument_vectors"] = len(acases)
    ctx.cov["to_python_contract_evaluations_per_worker_max"] = evals
    ctx.sample(short(cases[60]["v"], 300))
    ctx.sample(scases[5]["src"][:200])
    ctx.sample(acases[3]["call"])
    ctx.assumptions += ["stated mapping: None/undefined/null -> None, dict keys -> str(k) (later duplicates win), tuples/bytes/sets unsupported"]


def numnorm(e):
    """Script results: JavaScript has one number type, so a result may come back as int or float
    (0 and 0.0 are the same script value); compare numbers by value, sign of zero and NaN-ness."""
    import struct
    t = e[0]
    if t == "i":
        try:
            return ["d", struct.pack(">d", float(int(e[1]))).hex()]
        except OverflowError:
            return e
    if t == "l":
        return ["l", [numnorm(x) for x in e[1]]]
    if t == "m":
        return ["m", [[k, numnorm(x)] for k, x in e[1]]]
    return e


def has_unsupported(e):
    if e[0] == "t":
        return True
    if e[0] == "l":
        return any(has_unsupported(x) for x in e[1])
    if e[0] == "m":
        return any(has_unsupported(x) for _, x in e[1])
    return False


def short(x, n=200):
    s = str(x)
    return s if len(s) <= n else s[:n] + "..."
