"""C12 — a context keeps its own state: persistent, isolated, usable after errors.

Monitors (real engine, hooks on):
  1. model-based checker: histories of operations over several contexts with different limits; after every
     step every name in play is read back from every context (Context.get and eval) and compared with an
     abstract model (one dictionary per context).
  2. fault enumeration through the step hook: for scripts made of one-commit statements, the engine's own
     TimeLimitError / MemoryLimitError (and RegexTimeoutError inside regex loops) is raised at EVERY
     interpreter step s; afterwards the state must equal the state after some whole number k of statements
     (k non-decreasing in s), the context must pass a health script and agree with its twin (a fresh
     context driven through the first k statements without any error) on later evaluations;
     Context._current_vm must be cleared.
  3. isolation: every mutation of built-ins in context A leaves the structural fingerprint of context B's
     whole global graph unchanged, and no mutable engine object is shared between two contexts.
"""
import json
import random

from vf.common import h
from vf.runner import engine_pool

LEVEL = "fault_enumeration"

HEALTH = ("function hh(a){ return a * 2; } var hr = [hh(21), /b+/.test('abbb'), RegExp('c').test('c'), "
          "(function(){ try { null.x; } catch (e) { return e.name; } })(), (0, eval)('1 + 2'), new Function('return 7')(), "
          "[3, 1, 2].sort().join(''), JSON.stringify({a: [1]}), typeof Math.floor, 'ab'.toUpperCase()]; hr.join('|')")
HEALTH_WANT = "42|true|true|TypeError|3|7|123|{\"a\":[1]}|function|AB"

UNCAUGHT_WANT = [["jserr", "Error", True], ["jserr", "ReferenceError", False], ["jserr", "TypeError", False], ["jserr", "Error", False]]

STATEMENTS = [
    ("g%d = %d;", None),
    ("var v%d = 'str%d';", None),
    ("var f%d = function (x) { return x + %d; };", None),
    ("var a%d = [1, 2, 3].map(function (x) { return x * %d; });", None),
    ("var r%d = /a+b/.test('xaaab') ? %d : -1;", "regex"),
    ("var t%d; try { throw %d; } catch (e) { t%d = e; }", None),
    ("(0, eval)('var e%d = %d;');", None),
    ("var n%d = new Function('return %d;');", None),
    ("var o%d = {k: %d, l: [1, {m: 2}]};", None),
    ("Math.extra%d = %d;", "builtin"),
    ("var s%d = [5, 3, %d].sort(function (a, b) { return a - b; });", None),
    ("var m%d = 'x%dy'.replace(/\\d+/, 'N');", "regex"),
    ("var q%d = JSON.parse('{\"z\": %d}');", None),
    ("var gs%d = {get p() { return %d; }}.p;", None),
    ("var c%d = (function () { var k = %d; return function () { return k; }; })()();", None),
    ("var sw%d; switch (%d %% 3) { case 0: sw%d = 'zero'; break; case 1: sw%d = 'one'; break; default: sw%d = 'two'; }", None),
    ("var fo%d = (function () { var acc = 0; for (var fi of [1, 2, %d]) { acc += fi; } return acc; })();", None),
    ("var tf%d = (function () { var z = 0; try { z = [1, 2, 3].reduce(function (p, c) { return p + c; }, %d); } finally { z++; } return z; })();", None),
    ("var tl%d = (function () { var t; try { for (var tk in {a: 1, b: 2}) { t = tk + %d; } } catch (e) { t = 'c'; } finally { t += '!'; } return t; })();", None),
    ("var tn%d = (function () { try { try { return %d; } finally { [1].map(function (x) { return x; }); } } catch (e) { return -1; } })();", None),
]


def make_script(rng, n):
    stmts = []
    names = []
    for i in range(n):
        tmpl, kind = rng.choice(STATEMENTS)
        k = tmpl.count("%d")
        idx = 100 + i
        # name is the identifier committed by this statement
        if tmpl.startswith("g%d"):
            src = tmpl % (idx, idx)
            name = "g%d" % idx
        elif tmpl.startswith("Math.extra"):
            src = tmpl % (idx, idx)
            name = "Math.extra%d" % idx
        elif tmpl.startswith("(0, eval)"):
            src = tmpl % (idx, idx)
            name = "e%d" % idx
        else:
            src = tmpl % tuple([idx] * k)
            name = src.split()[1].rstrip(";")
        stmts.append(src)
        names.append(name)
    return stmts, names


def observe_src(names):
    parts = []
    for n in names:
        if n.startswith("Math."):
            parts.append("String(%s)" % n)
        else:
            parts.append("(typeof %s === 'undefined' ? 'UNDEF' : (typeof %s === 'function' ? 'fn:' + %s(1) : JSON.stringify(%s)))" % (n, n, n, n))
    return "[" + ", ".join(parts) + "].join('~')"


LATER = "var later = 0; for (var li = 0; li < 3; li++) { later += li; } [later, typeof hh, typeof later].join(',')"


# ---------------- worker side ------------------------------------------------------------------
def _fp_graph(ctx):
    """Structural fingerprint of a context's whole global graph + ids of its mutable objects."""
    from microjs import values as V
    seen = {}
    ids = set()

    def walk(v, depth):
        if isinstance(v, (str, int, float, bool)) or v is None:
            return repr(v)
        if v is V.UNDEFINED:
            return "undef"
        if v is V.NULL:
            return "null"
        k = id(v)
        if k in seen:
            return "ref%d" % seen[k]
        seen[k] = len(seen)
        if isinstance(v, V.JSObject):
            ids.add(k)
            parts = [type(v).__name__]
            for name, x in v._properties.items():
                parts.append(name + "=" + walk(x, depth + 1))
            for name in v._getters:
                parts.append("get " + name)
            for name in v._setters:
                parts.append("set " + name)
            if isinstance(v, V.JSArray):
                parts.append("[" + ",".join(walk(x, depth + 1) for x in v._elements) + "]")
            p = getattr(v, "_prototype", None)
            parts.append("proto:" + (walk(p, depth + 1) if p is not None else "none"))
            return "{" + ";".join(parts) + "}"
        if isinstance(v, V.JSFunction):
            ids.add(k)
            parts = ["jsfn:" + v.name]
            for name, x in getattr(v, "properties", {}).items():
                parts.append(name + "=" + walk(x, depth + 1))
            p = getattr(v, "_prototype", None)
            if p is not None:
                parts.append("prototype:" + walk(p, depth + 1))
            return "{" + ";".join(parts) + "}"
        if callable(v):
            return "native:" + getattr(v, "__qualname__", type(v).__name__)
        return "HOST:" + type(v).__name__
    out = []
    for name in sorted(ctx._globals):
        out.append(name + ":" + walk(ctx._globals[name], 0))
    return h(out, 16), ids


def w_fault(case, opts):
    """Fault enumeration for one script: returns per-step observations."""
    from vf import engine as E
    from microjs.regex.vm import RegexTimeoutError
    stmts, names = case["stmts"], case["names"]
    script = "\n".join(stmts)
    obs_src = observe_src(names)
    # twins: state after k whole statements, k = 0..n
    twins = []
    tctx = E.new_context()
    for k in range(len(stmts) + 1):
        if k > 0:
            r = E.run_js(stmts[k - 1], {"log": False}, ctx=tctx)
            if r["out"] != "ok":
                return {"skip": "statement %d fails by itself: %r" % (k, r.get("err"))}
        o = E.run_js(obs_src, {"log": False}, ctx=tctx)
        twins.append(o.get("py"))
    # later behaviour of each twin (fresh replay so the observation script did not disturb it)
    later = {}
    # count steps of the clean run
    # invariant at the step hook: while an evaluation runs, Context._current_vm is the VM that is stepping (nested eval /
    # new Function code switches it to the nested VM and must switch it back to the VM it interrupted)
    cctx = E.new_context()
    cur = {"steps": 0, "bad": None}

    def curmon(vm):
        cur["steps"] += 1
        if cctx._current_vm is not vm and cur["bad"] is None:
            cur["bad"] = "step %d: _current_vm is %s while %s is stepping" % (
                E.RUN.vm_steps, "None" if cctx._current_vm is None else "another VM", "the outer VM" if vm.native_depth_offset == 0 else "a nested VM")
    clean = E.run_js(script, {"log": False, "_vm_mons": [curmon]}, ctx=cctx)
    if clean["out"] != "ok":
        return {"skip": "script fails: %r" % (clean.get("err"),)}
    nvm, nrx = clean["vm_steps"], clean["rx_steps"]
    results = []
    faults = []
    for s in range(1, nvm + 1):
        faults.append(("vm", s, "TimeLimitError" if s % 2 else "MemoryLimitError"))
    for s in range(1, min(nrx, 60) + 1):
        faults.append(("rx", s, "RegexTimeoutError"))
    lastk = 0
    for where, s, kind in faults:
        if where == "rx":
            lastk = 0 if s == 1 else lastk

        def vmon(vm, _s=s, _kind=kind, _where=where):
            if _where == "vm" and E.RUN.vm_steps == _s:
                raise (E.TimeLimitError("injected") if _kind == "TimeLimitError" else E.MemoryLimitError("injected"))

        def rmon(rvm, loop, pc, sp, nstack, _s=s, _where=where):
            if _where == "rx" and E.RUN.rx_steps == _s:
                raise RegexTimeoutError("injected")
        ctx = E.new_context()
        r = E.run_js(script, {"log": False, "_vm_mons": [vmon], "_rx_mons": [rmon]}, ctx=ctx)
        ent = {"where": where, "s": s, "kind": kind, "out": r["out"], "cls": (r.get("err") or {}).get("cls"),
               "cur_vm_left": r["cur_vm_left"]}
        def uncaught_probe():
            # errors of later evaluations must still reach the caller (a handler left behind by the aborted run would swallow them)
            unc = []
            for usrc in ("throw 42;", "undefinedVariable_zz;", "(function () { try { null.x; } finally { [1].map(function (x) { return x; }); } })();", "throw {code: 7};"):
                u = E.run_js(usrc, {"log": False}, ctx=ctx)
                unc.append([u["out"], (u.get("err") or {}).get("name"), "42" in ((u.get("err") or {}).get("msg") or "")])
            return unc
        probe_first = (s // 2) % 2 == 0      # half of the faults: the very next evaluation is the failing one
        if probe_first:
            ent["uncaught"] = uncaught_probe()
        o = E.run_js(obs_src, {"log": False}, ctx=ctx)
        state = o.get("py")
        ks = [k for k, t in enumerate(twins) if t == state]
        ent["k"] = ks[0] if ks else None
        ent["state"] = None if ks else state
        hres = E.run_js(HEALTH, {"log": False}, ctx=ctx)
        ent["health"] = hres.get("py")
        ent["health_err"] = hres.get("err")
        lres = E.run_js(LATER, {"log": False}, ctx=ctx)
        ent["later"] = lres.get("py")
        if not probe_first:
            ent["uncaught"] = uncaught_probe()
        if ks:
            k = ks[0]
            if k not in later:
                t2 = E.new_context()
                for st in stmts[:k]:
                    E.run_js(st, {"log": False}, ctx=t2)
                E.run_js(HEALTH, {"log": False}, ctx=t2)
                later[k] = E.run_js(LATER, {"log": False}, ctx=t2).get("py")
            ent["twin_later"] = later[k]
        results.append(ent)
    return {"n_vm": nvm, "n_rx": nrx, "faults": results, "n_stmts": len(stmts), "current_vm_steps": cur["steps"], "current_vm_bad": cur["bad"]}


def w_history(case, opts):
    """Run a history of operations over several contexts; return observations after every step."""
    from vf import engine as E
    ctxs = []
    for lim in case["limits"]:
        ctxs.append(E.new_context(lim.get("tl"), lim.get("ml")))
    out = []
    for step, op in enumerate(case["ops"]):
        c = ctxs[op["ctx"]]
        ent = {}
        if op["op"] == "eval":
            # the (virtual) wall clock moves on between evaluations: whatever an earlier evaluation left behind must not still be
            # measuring *its* deadline
            r = E.run_js(op["src"], {"log": False, "max_steps": 400000, "clock_base": 1000.0 + 50.0 * step}, ctx=c)
            ent["out"] = r["out"]
            ent["cls"] = (r.get("err") or {}).get("cls")
            ent["py"] = r.get("py")
            ent["cur_vm_left"] = r["cur_vm_left"]
        elif op["op"] == "set":
            c.set(op["name"], op["value"])
            ent["out"] = "ok"
        elif op["op"] == "get":
            ent["py"] = E.encpy(c.get(op["name"]))
            ent["out"] = "ok"
        # observe every name in play on every context
        obs = []
        for ci, cc in enumerate(ctxs):
            row = {}
            for n in case["names"]:
                try:
                    row[n] = E.encpy(cc.get(n))
                except Exception as e:
                    row[n] = ["EXC", type(e).__name__]
            # through eval as well (typeof keeps it safe for undefined names)
            rr = E.run_js("[" + ", ".join("typeof %s" % n for n in case["names"]) + "].join(',')", {"log": False}, ctx=cc)
            row["__typeof"] = rr.get("py")
            obs.append(row)
        ent["obs"] = obs
        out.append(ent)
    return {"steps": out}


# (setup, failing operation - caught by the script or ending the evaluation -, repair, reuse): the context that ran the failing operation
# must afterwards answer `reuse` exactly like a twin context that never ran it (built-ins keep no state across a failed call)
REUSE_SCENARIOS = [
    # built-in method closures taken by the evaluation that then fails, called by a later evaluation
    ("stored-method-closures-then-overflow", "var f = function () { return 7; }; var arr = [1, 2, 3]; var c1 = f.call, a1 = f.apply, b1 = f.bind, m1 = arr.map, j1 = arr.join, s1 = 'abc'.toUpperCase, t1 = /b/.test; function r() { return r() + 1; }", "c1 = f.call, a1 = f.apply, b1 = f.bind, m1 = arr.map, j1 = arr.join, s1 = 'abc'.toUpperCase, t1 = /b/.test, r()", "", "[c1(), a1(null, []), b1(null)(), m1(function (x) { return x * 2; }).join(), j1('-'), s1(), t1('abc')]"),
    ("stored-method-closures-then-throw-in-nested-callbacks", "var f = function () { return 7; }; var arr = [1, 2, 3]; var c1 = f.call, a1 = f.apply, b1 = f.bind, m1 = arr.map, j1 = arr.join, s1 = 'abc'.toUpperCase, t1 = /b/.test; function r() { return r() + 1; }", "c1 = f.call, a1 = f.apply, b1 = f.bind, m1 = arr.map, j1 = arr.join, s1 = 'abc'.toUpperCase, t1 = /b/.test, [1].forEach(function () { [2].map(function () { null.x; }); })", "", "[c1(), a1(null, []), b1(null)(), m1(function (x) { return x * 2; }).join(), j1('-'), s1(), t1('abc')]"),
    ("stored-method-closures-then-overflow-inside-callback", "var f = function () { return 7; }; var arr = [1, 2, 3]; var c1 = f.call, a1 = f.apply, b1 = f.bind, m1 = arr.map, j1 = arr.join, s1 = 'abc'.toUpperCase, t1 = /b/.test; function r() { return r() + 1; }", "c1 = f.call, a1 = f.apply, b1 = f.bind, m1 = arr.map, j1 = arr.join, s1 = 'abc'.toUpperCase, t1 = /b/.test, [1].map(function () { return [2].map(function () { return r(); }); })", "", "[c1(), a1(null, []), b1(null)(), m1(function (x) { return x * 2; }).join(), j1('-'), s1(), t1('abc')]"),
    ("stringify-cycle", "var a = {name: 'a'}; a.self = a;", "JSON.stringify(a)", "a.self = null;", "[JSON.stringify(a), JSON.stringify({wrap: [a], n: 1}), JSON.stringify([a, a])]"),
    ("stringify-getter-throws", "var g = {get p() { if (g.bad) { throw new Error('x'); } return 1; }, q: [1]}; g.bad = true;", "JSON.stringify({in: g})", "g.bad = false;", "[JSON.stringify(g), JSON.stringify({in: g})]"),
    ("parse-error", "var t = '{\"k\": [1, 2]}';", "JSON.parse(t + '}')", "", "[JSON.stringify(JSON.parse(t)), JSON.parse('[1]').length]"),
    ("sort-comparator-throws", "var s = [3, 1, 2];", "s.sort(function () { throw new Error('c'); })", "s = [3, 1, 2];", "[s.sort().join(), [5, 4].sort(function (x, y) { return x - y; }).join()]"),
    ("forEach-throws", "var f = [1, 2, 3], seen = [];", "f.forEach(function (v) { if (v === 2) { throw new Error('f'); } })", "", "f.forEach(function (v) { seen.push(v); }); [seen.join(), f.map(function (v) { return v * 2; }).join()]"),
    ("replace-fn-throws", "var re = /a/g, txt = 'aXa';", "txt.replace(re, function () { throw new Error('r'); })", "", "[re.lastIndex, txt.replace(re, '-'), re.lastIndex, re.test('a'), re.lastIndex]"),
    ("regexp-ctor-error", "", "new RegExp('(')", "", "[new RegExp('(a)').exec('a')[1], /x/.test('x')]"),
    ("function-ctor-error", "", "new Function('return (')", "", "[new Function('a', 'return a + 1')(1), (0, eval)('2 + 2')]"),
    ("valueOf-throws-in-arith", "var vo = {valueOf: function () { if (vo.bad) { throw new Error('v'); } return 4; }}; vo.bad = true;", "vo * 2 + [vo] * 1", "vo.bad = false;", "[vo * 2, vo + 1, vo < 5]"),
    ("setter-throws", "var st = {_v: 1, set v(x) { if (x < 0) { throw new RangeError('neg'); } this._v = x; }, get v() { return this._v; }};", "st.v = -1", "", "[st.v, (st.v = 5), st.v, Object.keys(st).join()]"),
    ("reduce-empty", "var em = [];", "em.reduce(function (a, b) { return a + b; })", "em.push(1, 2);", "[em.reduce(function (a, b) { return a + b; }), em.length]"),
    ("typed-array-bad-length", "", "new Int8Array(-1)", "", "[new Int8Array(2).length, new Int8Array([1, 2]).join()]"),
    ("array-write-beyond-end", "var aw = [1];", "aw[5] = 1", "", "[aw.length, (aw[1] = 2), aw.join()]"),
    ("repeat-range-error", "", "'x'.repeat(-1)", "", "['x'.repeat(3), 'ab'.repeat(0)]"),
    ("deep-recursion-caught-outside", "function rec(n) { return rec(n + 1) + 1; }", "rec(0)", "", "[(function f(n) { return n ? f(n - 1) + 1 : 0; })(20), typeof rec]"),
    ("callback-throws-in-nested-natives", "var nn = [[1, 2], [3]];", "nn.map(function (r) { return r.filter(function (x) { if (x === 3) { throw new Error('n'); } return true; }); })", "", "[nn.map(function (r) { return r.length; }).join(), nn.length]"),
    # failures that come from exhausting a resource half-way through a traversal (whatever bookkeeping the traversal keeps - guard
    # sets, path stacks, depth counters - must be as if it had never started); the last element is the value the reuse must give
    ("deep-array-to-string", "var top = [7]; for (var di = 0; di < 3000; di++) { top = [top]; }", "String(top)", "top[0] = 7; top.push(8);",
     "[top.join(), String(top), top + '', [top, top].join('|'), top.length, [1, [2, [3]]].join()]", ["7,8", "7,8", "7,8", "7,8|7,8", 2, "1,2,3"]),
    ("deep-array-join-then-others", "var dj = [1]; for (var dk = 0; dk < 3000; dk++) { dj = [dj, 2]; }", "dj.join('-')", "",
     "(function () { var fresh = []; for (var q = 0; q < 400; q++) { fresh.push([q, [q]].join()); } var bad = 0; for (var q2 = 0; q2 < 400; q2++) { if (fresh[q2] !== q2 + ',' + q2) { bad++; } } return [bad, dj.length, dj[1], String(dj[0][1])]; })()", [0, 2, 2, "2"]),
    ("deep-object-stringify", "var dob = {v: 1}; for (var dn = 0; dn < 3000; dn++) { dob = {k: dob}; }", "JSON.stringify(dob)", "dob.k = {v: 2};",
     "[JSON.stringify(dob), JSON.stringify([dob, dob]), JSON.stringify({a: {b: {c: [1]}}})]", ['{"k":{"v":2}}', '[{"k":{"v":2}},{"k":{"v":2}}]', '{"a":{"b":{"c":[1]}}}']),
    ("deep-json-parse", "var dtxt = ''; for (var dp = 0; dp < 3000; dp++) { dtxt += '['; } var dtxt2 = dtxt; for (var dp2 = 0; dp2 < 3000; dp2++) { dtxt2 += ']'; }", "JSON.parse(dtxt2)", "",
     "[JSON.parse('[[1],[2]]').length, JSON.stringify(JSON.parse('{\"a\":[{\"b\":1}]}'))]", [2, '{"a":[{"b":1}]}']),
    ("catastrophic-regexp-then-reuse", "var cre = /(a+)+b/; var csub = 'aaaaaaaaaaaaaaaaaaaaaaaaaaaaaaaaaaaaaaaaac';", "cre.test(csub)", "",
     "[cre.test('aab'), cre.exec('xaab')[1], 'aab'.replace(cre, '-'), /a+/.exec('caab')[0]]", [True, "aa", "-", "aa"]),
    ("deep-recursion-then-array-string", "function drec(n) { return drec(n + 1) + 1; } var dra = [[1, 2], [3]];", "drec(0)", "", "[String(dra), dra.join('|'), [dra, dra] + '']", ["1,2,3", "1,2|3", "1,2,3,1,2,3"]),
    # earlier allocations (in evaluations that succeeded or failed) are not charged to later ones: each evaluation is judged against the limit alone
    ("allocations-in-earlier-evals", "var keep = new Uint8Array(10);", "new ArrayBuffer(60000); new Float64Array(8000); Array(7000); new Int32Array(15000); throw new Error('after allocating')", "",
     "[new ArrayBuffer(150000).byteLength, new Float64Array(20000).length, Array(20000).length, new Uint8Array(20000).length, keep.length]", [150000, 20000, 20000, 20000, 10]),
    ("allocation-refused-then-smaller", "", "new ArrayBuffer(100000000)", "", "[new ArrayBuffer(150000).byteLength, new ArrayBuffer(150000).byteLength, Array(20000).length]", [150000, 150000, 20000]),
    ("stringify-then-memory-limit", "var big = []; for (var bi = 0; bi < 50; bi++) { big.push({i: bi}); }", "JSON.stringify(big); (function r() { return r(); })()", "", "[JSON.stringify(big).length > 100, JSON.stringify([big[0], big[0]])]"),
]


def w_reuse(case, opts):
    from vf import engine as E
    out = {}
    for variant in ("caught", "uncaught", "twin"):
        ctx = E.new_context(None, 200000)
        E.run_js(case["setup"] or "0", {"log": False}, ctx=ctx)
        if variant == "caught":
            r = E.run_js("var failed = false; try { %s; } catch (e) { failed = true; } failed" % case["fail"], {"log": False, "max_steps": 400000}, ctx=ctx)
            out["caught_failed"] = [r["out"], r.get("py")]
        elif variant == "uncaught":
            r = E.run_js(case["fail"] + ";", {"log": False, "max_steps": 400000}, ctx=ctx)
            out["uncaught_out"] = r["out"]
        E.run_js(case["repair"] or "0", {"log": False}, ctx=ctx)
        r = E.run_js(case["reuse"], {"log": False}, ctx=ctx)
        out[variant] = [r["out"], r.get("py"), (r.get("err") or {}).get("name")]
    return out


def w_isolation(case, opts):
    from vf import engine as E
    a, b = E.new_context(), E.new_context(None, 100000)
    # both contexts create values through every constructor / factory the engine has (identical source text in both: anything
    # memoised per text at module level would be shared), kept reachable from globals so that the graph walk sees them
    for c in (a, b):
        r0 = E.run_js(CREATE, {"log": False}, ctx=c)
        if r0["out"] != "ok":
            return {"create_failed": r0.get("err")}
    fpb0, idsb = _fp_graph(b)
    fpa0, idsa = _fp_graph(a)
    res = {"shared_ids": len(idsa & idsb), "fresh_equal": fpa0 == fpb0, "muts": []}
    for src in case["mutations"]:
        r = E.run_js(src, {"log": False}, ctx=a)
        fpb, idsb2 = _fp_graph(b)
        fpa, idsa2 = _fp_graph(a)
        probe = E.run_js(case["probe"], {"log": False}, ctx=b)
        res["muts"].append({"src": src, "a_out": r["out"], "b_changed": fpb != fpb0, "a_changed": fpa != fpa0,
                            "shared": len(idsa2 & idsb2), "probe": probe.get("py")})
    fresh = E.run_js(case["probe"], {"log": False})
    res["fresh_probe"] = fresh.get("py")
    return res


def w_hostshare(case, opts):
    """Host containers handed to set(): one Python object given to two contexts, given twice to one context after the host changed it,
    and fresh containers created and dropped in a row (their addresses repeat).  Every read is compared with a deep copy the harness
    took when it called set(); returns the list of mismatches."""
    import copy
    import random as _r
    from vf import engine as E
    rr = _r.Random(case["seed"])
    bad = []
    n_obs = 0

    def expect(label, got, want):
        nonlocal n_obs
        n_obs += 1
        if got != want:
            bad.append([label, repr(got)[:200], repr(want)[:200]])

    def mk():
        k = rr.randint(0, 4)
        return [[rr.randint(0, 9)], {"k": [rr.randint(0, 9)]}, [], {"a": rr.randint(0, 9), "b": [1, {"c": 2}]}, [[0], [1, [2]]]][k]
    for rnd in range(case["rounds"]):
        a, b = E.new_context(), E.new_context(None, 100000)
        shared = mk()
        snap = copy.deepcopy(shared)
        a.set("v", shared)
        b.set("v", shared)
        a.eval("if (Array.isArray(v)) { v.push(3); } else { v.added = 1; }")
        expect("other context after mutation in the first", b.get("v"), snap)
        expect("host object after mutation by a script", shared, snap)
        expect("other context sees its own copy from script code", b.eval("JSON.stringify(v)") == a.eval("JSON.stringify(v)"), False)
        try:
            a.eval("if (Array.isArray(v)) { v[0] = 99; } else { v.z = 99; } throw new Error('boom');")
        except Exception:
            pass
        expect("other context after mutate-then-throw in the first", b.get("v"), snap)
        # the host changes its object and sets it again: the new contents arrive (in both contexts)
        if isinstance(shared, list):
            shared.append("host")
        else:
            shared["host"] = [7]
        snap2 = copy.deepcopy(shared)
        a.set("v", shared)
        expect("re-set after a host-side change", a.get("v"), snap2)
        expect("untouched context keeps the earlier value", b.get("v"), snap)
        b.set("w", shared)
        expect("same object under a second name", b.get("w"), snap2)
        # fresh containers in a row (address reuse)
        for i in range(30):
            fresh = [i, [i, {"i": i}]] if i % 2 else {"i": i, "l": [i]}
            want = copy.deepcopy(fresh)
            a.set("f", fresh)
            del fresh
            expect("fresh container %d" % (i % 2), a.get("f"), want)
            expect("fresh container from script", a.eval("JSON.stringify(f)"), __import__("json").dumps(want, separators=(",", ":")))
    return {"bad": bad[:20], "nbad": len(bad), "observations": n_obs}


MUTATIONS = [
    "Math.PI = 3;", "Math.floor = function () { return 'hacked'; };", "JSON.parse = null;", "JSON.stringify = function () { return 'X'; };",
    "Object.prototype.injected = 1;", "Object.keys = function () { return ['k']; };", "Array.prototype.extra = 2;",
    "Array.isArray = function () { return 'no'; };", "delete Math.max;", "delete JSON.stringify;", "Error.prototype.name = 'Hacked';",
    "TypeError.prototype.message = 'm';", "Number.parseFloat = 1;", "String.fromCharCode = 2;", "console.log = 3;",
    "Object.prototype.toString = function () { return 'T'; };", "Object.prototype.hasOwnProperty = null;",
    "Math = {};", "JSON = 1;", "Object = function () {};", "Array = null;", "undefined = 5;", "NaN = 1;", "Infinity = 2;",
    "eval = function () { return 'noeval'; };", "parseInt = function () { return -1; };", "isNaN = 0;", "RegExp = null;",
    "Function.prototype.foo = 1;", "Date.now = function () { return 0; };", "Int8Array = 7;", "ArrayBuffer = 8;",
    "Boolean = 9;", "String = 10;", "Number = 11;", "Error = 12;",
]
CREATE = ("var cF = new Function('v', 'this.v = v'); var cF2 = Function('return 1'); var cR = /x(y)?/g; var cRC = new RegExp('a+', 'i'); var cJ = JSON.parse('{\"a\":[1,{\"b\":2}]}'); "
          "var cE = new Error('x'); var cTE = (function () { try { null.x; } catch (e) { return e; } })(); var cB = (function () { return this; }).bind({k: 1}); var cT = new Int8Array(2); "
          "var cBuf = new ArrayBuffer(4); var cA = new Array(3); var cO = Object.create(null); var cS = 'a,b'.split(','); var cM = 'ab'.match(/a/); var cEV = (0, eval)('({e: [1]})'); "
          "var cK = Object.keys({a: 1}); var cFN = function named() { return 1; }; var cAR = (x) => x; var cI = new cF(5); var cOE = Object.entries({a: 1}); var cSL = [1, 2, 3].slice(1); "
          "var cMP = [1].map(function (x) { return [x]; }); var cEVF = (0, eval)('(function evf() {})'); var cARGS = (function () { return arguments; })(1, 2); var cASSIGN = Object.assign({}, {z: 1}); 'created'")
CREATED_MUTATIONS = ["cF.tag = 'A'; cF.prototype.get = function () { return 1; };", "cF2.mark = 7;", "cR.lastIndex = 5; cR.extra = 1;", "cRC.flagged = true;", "cJ.a.push(3); cJ.a[1].b = 9;", "cE.message = 'changed';",
                     "cTE.extra = 1;", "cB.own = 1;", "cT[0] = 5;", "cA[0] = 'x';", "cO.p = 1;", "cS.push('c');", "cM.extra = 1;", "cEV.e.push(2);", "cK.push('b');", "cFN.prototype.m = 1; cFN.st = 2;",
                     "cAR.p = 1;", "cI.v = 6; cI.w = 7;", "cOE[0].push('!');", "cSL.pop();", "cMP[0].push(2);", "cEVF.q = 1; cEVF.prototype.r = 2;", "cARGS[0] = 'changed';", "cASSIGN.z = 2;"]
PROBE = ("[Math.PI > 3.14, Math.floor(2.5), typeof JSON.parse, JSON.stringify([1]), ({}).injected, Object.keys({a: 1}).join(), [].extra, "
         "Array.isArray([]), Math.max(1, 2), new Error('x').name, typeof parseInt, parseInt('12'), isNaN(NaN), typeof RegExp, "
         "({}).toString(), typeof eval, String(undefined), typeof Int8Array, typeof Boolean, typeof Number, "
         "(function () { try { null.x; } catch (e) { return e.name + (e instanceof TypeError); } })()].join('|')")


# ---------------- model for histories -----------------------------------------------------------
def gen_history(rng, length, nctx):
    names = ["x", "y", "z", "fn", "obj", "rx"]
    limits = [{"tl": None, "ml": None}, {"tl": 3000, "ml": None}, {"tl": 3000, "ml": 30000}][:nctx]
    ops = []
    model = [dict() for _ in range(nctx)]      # name -> expected encpy, or absent
    exp = []
    for _ in range(length):
        ci = rng.randrange(nctx)
        kind = rng.choice(["define", "assign", "func", "throw", "syntax", "loop", "recurse", "set", "get", "indirect",
                           "newfunc", "objmut", "delete", "throw-mid", "compile-reject", "regex-define", "regex-use", "regex-use", "var-redeclare"])
        n = rng.choice(names[:3])
        v = rng.randint(1, 99)
        m = model[ci]
        if kind == "regex-use" and m.get("rx") != "regex-holder":
            kind = "regex-define"
        e = {"ctx": ci}
        if kind == "define":
            ops.append({"ctx": ci, "op": "eval", "src": "var %s = %d; %s" % (n, v, n)})
            m[n] = ["i", str(v)]
            e.update(out="ok", py=["i", str(v)])
        elif kind == "assign":
            ops.append({"ctx": ci, "op": "eval", "src": "%s = '%d'; 1" % (n, v)})
            m[n] = ["s", str(v)]
            e.update(out="ok")
        elif kind == "func":
            ops.append({"ctx": ci, "op": "eval", "src": "function fn(a) { return a + %d; } fn(1)" % v})
            m["fn"] = ["jsf"]
            e.update(out="ok", py=["i", str(v + 1)])
        elif kind == "throw":
            ops.append({"ctx": ci, "op": "eval", "src": "%s = %d; throw new Error('boom'); %s = -1;" % (n, v, n)})
            m[n] = ["i", str(v)]
            e.update(out="jserr", cls="JSError")
        elif kind == "throw-mid":
            ops.append({"ctx": ci, "op": "eval", "src": "%s = [1, 2].map(function (q) { if (q === 2) { null.boom; } return q; });" % n})
            e.update(out="jserr", cls="JSError")
        elif kind == "syntax":
            ops.append({"ctx": ci, "op": "eval", "src": "%s = %d; (((" % (n, v)})
            e.update(out="jserr", cls="JSSyntaxError")
        elif kind == "compile-reject":
            # parses, but the compiler refuses it while it is inside a function nested in functions whose locals carry the names in play
            # (nothing of an aborted compilation may survive: not in this context, not in the others)
            why = rng.choice(["if (q) break;", "continue;", "nolabel: { break other; }", "for (q.p of []) {}", "var big = [%s];" % ", ".join(str(i) for i in range(300))])
            ops.append({"ctx": ci, "op": "eval", "src": "%s = %d; function setup(x, fn) { var y = 0, z = [], obj = {}; var inner = function (q) { function deep() { %s } }; }" % (n, v, why)})
            e.update(out="jserr")
        elif kind == "loop":
            ops.append({"ctx": ci, "op": "eval", "src": "%s = %d; while (true) {}" % (n, v)})
            if limits[ci]["tl"]:
                m[n] = ["i", str(v)]
                e.update(out="jserr", cls="TimeLimitError")
            else:
                ops.pop()
                continue
        elif kind == "recurse":
            ops.append({"ctx": ci, "op": "eval", "src": "%s = %d; function rr(k) { return rr(k + 1); } rr(0);" % (n, v)})
            if limits[ci]["ml"]:
                m[n] = ["i", str(v)]
                m.setdefault("__rr", 1)
                e.update(out="jserr", cls="MemoryLimitError")
            elif limits[ci]["tl"]:
                m[n] = ["i", str(v)]
                e.update(out="jserr", cls="TimeLimitError")
            else:
                ops.pop()
                continue
        elif kind == "set":
            val = rng.choice([v, str(v), [v, "a"], {"k": v}, None, True, 1.5])
            ops.append({"ctx": ci, "op": "set", "name": n, "value": val})
            m[n] = pyenc(val)
            e.update(out="ok")
        elif kind == "get":
            ops.append({"ctx": ci, "op": "get", "name": n})
            e.update(out="ok", py=m.get(n, ["N"]))
        elif kind == "indirect":
            ops.append({"ctx": ci, "op": "eval", "src": "(0, eval)('var %s = %d;'); %s" % (n, v, n)})
            m[n] = ["i", str(v)]
            e.update(out="ok", py=["i", str(v)])
        elif kind == "newfunc":
            ops.append({"ctx": ci, "op": "eval", "src": "new Function('%s = %d;')(); %s" % (n, v, n)})
            m[n] = ["i", str(v)]
            e.update(out="ok", py=["i", str(v)])
        elif kind == "objmut":
            ops.append({"ctx": ci, "op": "eval", "src": "var obj = {a: %d}; obj.b = [1]; obj.a" % v})
            m["obj"] = ["m", [["a", ["i", str(v)]], ["b", ["l", [["i", "1"]]]]]]
            e.update(out="ok", py=["i", str(v)])
        elif kind == "regex-define":
            ops.append({"ctx": ci, "op": "eval", "src": "var rx = {re: /a+(b)?/g, rc: new RegExp('x*y', 'i'), f: function (s) { return /b+/.test(s); }}; rx.re.test('caab')"})
            m["rx"] = "regex-holder"
            e.update(out="ok", py=["b", True])
        elif kind == "regex-use":
            ops.append({"ctx": ci, "op": "eval", "src": "rx.re.lastIndex = 0; [rx.re.test('xaab'), rx.rc.test('XXY'), rx.f('abb'), 'aab'.replace(rx.re, '-'), 'a1'.split(rx.rc).length, 'q'.search(rx.rc)].join()"})
            e.update(out="ok", py=["s", "true,true,true,-,1,-1"])
        elif kind == "var-redeclare":
            ops.append({"ctx": ci, "op": "eval", "src": "var %s; var fn; var obj; typeof %s" % (n, n)})
            e.update(out="ok")
        elif kind == "delete":
            ops.append({"ctx": ci, "op": "eval", "src": "var obj = {a: %d, b: 2}; delete obj.a; 1" % v})
            m["obj"] = ["m", [["b", ["i", "2"]]]]
            e.update(out="ok")
        e["model"] = [dict(mm) for mm in model]
        exp.append(e)
    return {"limits": limits, "ops": ops, "names": names}, exp


def pyenc(v):
    if v is None:
        return ["N"]
    if v is True or v is False:
        return ["b", v]
    if isinstance(v, int):
        return ["i", str(v)]
    if isinstance(v, float):
        import struct
        return ["d", struct.pack(">d", v).hex()]
    if isinstance(v, str):
        return ["s", v]
    if isinstance(v, list):
        return ["l", [pyenc(x) for x in v]]
    if isinstance(v, dict):
        return ["m", [[k, pyenc(x)] for k, x in v.items()]]


def main(ctx):
    rng = random.Random(ctx.seed)
    fixed = random.Random(99)
    # 1. histories
    hist = []
    for i in range(300 if ctx.quick else 6000):
        r = fixed if i % 2 == 0 else rng
        case, exp = gen_history(r, r.randint(3, 12) if i % 3 else 30, 3)
        if case["ops"]:
            hist.append((case, exp))
    # 2. fault enumeration scripts
    fscripts = []
    for i in range(14 if ctx.quick else 150):
        r = fixed if i % 2 == 0 else rng
        stmts, names = make_script(r, r.randint(4, 9))
        fscripts.append({"stmts": stmts, "names": names})
    ep = engine_pool()
    try:
        hres = ep.map({"mod": "checks.C12", "fn": "w_history"}, [c for c, _ in hist], batch=10, timeout=300)
        fres = ep.map({"mod": "checks.C12", "fn": "w_fault"}, fscripts, batch=1, timeout=900)
        ucases = [{"name": sc[0], "setup": sc[1], "fail": sc[2], "repair": sc[3], "reuse": sc[4], "expect": sc[5] if len(sc) > 5 else None} for sc in REUSE_SCENARIOS]
        ures = ep.map({"mod": "checks.C12", "fn": "w_reuse"}, ucases, batch=3, timeout=300)
        ires = ep.map({"mod": "checks.C12", "fn": "w_isolation"}, [{"mutations": CREATED_MUTATIONS + MUTATIONS, "probe": PROBE}], batch=1, timeout=300)
        sres = ep.map({"mod": "checks.C12", "fn": "w_hostshare"}, [{"seed": ctx.seed * 31 + i, "rounds": 6 if ctx.quick else 60} for i in range(8)], batch=1, timeout=300)
    finally:
        ep.close()
    share_obs = 0
    for r in sres:
        ctx.count()
        if not r or "bad" not in r:
            ctx.violation(("hostshare-worker-failed",), {"detail": r})
            continue
        share_obs += r["observations"]
        for label, got, want in r["bad"]:
            ctx.violation(("host-container-sharing", label.rstrip("0123456789 ")), {"observed": got, "required": want, "monitor": "deep copy taken at set() time"})
        if not r["bad"]:
            ctx.nontrivial(("hostshare", share_obs))
    ctx.cov["host_container_sharing_observations"] = share_obs
    # ---- histories vs model
    hsteps = 0
    for (case, exp), r in zip(hist, hres):
        if not r or "steps" not in r:
            ctx.violation(("history-worker-failed",), {"case": case, "detail": r})
            continue
        for si, (e, o) in enumerate(zip(exp, r["steps"])):
            ctx.count()
            hsteps += 1
            prob = None
            if o.get("out") != e["out"]:
                prob = "outcome %r, model says %r (%r)" % (o.get("out"), e["out"], o.get("cls"))
            elif e.get("cls") and o.get("cls") != e["cls"] and not (e["cls"] == "JSError" and o.get("cls") in ("JSError",)):
                prob = "error class %r, model says %r" % (o.get("cls"), e["cls"])
            elif "py" in e and e["py"] is not None and o.get("py") != e["py"]:
                prob = "value %r, model says %r" % (o.get("py"), e["py"])
            elif o.get("cur_vm_left"):
                prob = "_current_vm left set"
            else:
                for ci, (row, mm) in enumerate(zip(o["obs"], e["model"])):
                    for n in case["names"]:
                        want = mm.get(n, ["N"])
                        got = row.get(n)
                        if want == ["jsf"]:
                            ok = got == ["jsf"]
                        elif want == "regex-holder":
                            ok = isinstance(got, list) and got[:1] == ["m"]
                        else:
                            ok = got == want
                        if not ok:
                            prob = "ctx %d name %s = %r, model says %r" % (ci, n, got, want)
                            break
                    if prob:
                        break
            if prob:
                opk = case["ops"][si].get("src", case["ops"][si]["op"])[:40]
                cid = h(["hist", case["ops"][:si + 1], case["limits"]])
                if ctx.known_cell(cid, h(prob, 10)):
                    continue
                ctx.violation(("history", prob.split(",")[0][:40], opk), {"case": case, "step": si, "problem": prob,
                                                                           "monitor": "abstract context model"})
                break
        ctx.nontrivial(h(case["ops"]))
    # ---- fault enumeration
    injected = 0
    scripts_done = 0
    curvm_steps = 0
    for fs, r in zip(fscripts, fres):
        if not r or "faults" not in r:
            if r and "skip" in r:
                continue
            ctx.violation(("fault-worker-failed",), {"case": fs, "detail": r})
            continue
        scripts_done += 1
        curvm_steps += r.get("current_vm_steps", 0)
        if r.get("current_vm_bad"):
            ctx.violation(("current-vm-invariant", r["current_vm_bad"].split(":", 1)[1].strip()[:60]),
                          {"case": fs, "problem": r["current_vm_bad"], "monitor": "invariant at the VM step hook during a fault-free run"})
        lastk = {"vm": 0, "rx": 0}
        for f in r["faults"]:
            ctx.count()
            injected += 1
            prob = None
            want_cls = "TimeLimitError" if f["kind"] in ("TimeLimitError", "RegexTimeoutError") else "MemoryLimitError"
            if f["out"] != "jserr" or f["cls"] != want_cls:
                prob = "injected %s at %s step %d surfaced as %s/%s" % (f["kind"], f["where"], f["s"], f["out"], f["cls"])
            elif f["cur_vm_left"]:
                prob = "_current_vm not cleared after the error"
            elif f["k"] is None:
                prob = "state after the fault is not the state after any whole number of statements: %r" % (f["state"],)
            elif f["where"] == "vm" and f["k"] < lastk["vm"]:
                prob = "committed prefix shrank: k=%d after k=%d" % (f["k"], lastk["vm"])
            elif f["health"] != ["s", HEALTH_WANT]:
                prob = "health script after the fault: %r %r" % (f["health"], f.get("health_err"))
            elif f.get("uncaught") != UNCAUGHT_WANT:
                prob = "uncaught errors of later evaluations do not reach the caller as they should: %r" % (f.get("uncaught"),)
            elif f.get("twin_later") != f["later"]:
                prob = "later evaluation differs from the twin context: %r vs %r" % (f["later"], f.get("twin_later"))
            if f["k"] is not None and f["where"] == "vm":
                lastk["vm"] = max(lastk["vm"], f["k"])
            if prob:
                ctx.violation(("fault", prob.split(":")[0][:60]), {"case": fs, "fault": f, "problem": prob,
                                                                   "monitor": "fault enumeration through the step hook"})
                break
        ctx.nontrivial(h(fs["stmts"]))
    # ---- a failed built-in leaves nothing behind
    for c, r in zip(ucases, ures):
        ctx.count()
        if not r or "twin" not in r:
            ctx.violation(("reuse-worker-failed", c["name"]), {"case": c, "detail": r})
            continue
        if r.get("uncaught_out") == "ok" and r.get("caught_failed") == ["ok", ["b", False]]:
            ctx.violation(("reuse", "scenario does not fail any more", c["name"]), {"case": c, "observed": r})   # (harness drift guard)
            continue
        bad = [v for v in ("caught", "uncaught") if r[v] != r["twin"]]
        if r["twin"][0] != "ok":
            bad.append("twin itself failed")
        if c.get("expect") is not None and r["twin"][0] == "ok" and numnorm12(r["twin"][1]) != numnorm12(penc12(c["expect"])):
            bad.append("twin (which never ran the failing operation itself, but shares the process with contexts that did) gives a wrong value")
        if bad:
            ctx.violation(("reuse-after-failed-operation", c["name"], bad[0]), {"case": c, "observed": r, "monitor": "same context after a failed operation vs a twin that never ran it"})
        else:
            ctx.nontrivial(("reuse", c["name"]))
    # ---- isolation
    iso = ires[0]
    if not iso or "muts" not in iso:
        ctx.violation(("isolation-worker-failed",), {"detail": iso})
    else:
        if iso["shared_ids"]:
            ctx.violation(("isolation", "fresh contexts share mutable objects"), {"shared": iso["shared_ids"]})
        changed_a = 0
        for m in iso["muts"]:
            ctx.count()
            if m["a_changed"]:
                changed_a += 1
                ctx.nontrivial("mut:" + m["src"])
            if m["b_changed"] or m["shared"] or m["probe"] != iso["fresh_probe"]:
                ctx.violation(("isolation", m["src"]), {"mutation": m, "fresh_probe": iso["fresh_probe"],
                                                        "monitor": "global-graph fingerprint + probe of the other context"})
        ctx.cov["isolation_mutations_effective_in_A"] = changed_a
        if changed_a == 0:
            ctx.inconclusive_because("no built-in mutation changed context A: isolation monitor observed nothing")
    if injected == 0:
        ctx.inconclusive_because("no fault was injected")
    ctx.cov["current_vm_invariant_steps_checked"] = curvm_steps
    ctx.cov["rule"] = ("fault enumeration: engine limit errors raised from the step hook at every VM step (and the first 60 regex "
                       "steps) of one-commit-per-statement scripts; histories of 14 operation kinds over 3 contexts with "
                       "different limits checked against a dictionary model after every step; 36 built-in mutations for "
                       "isolation; non-trivial/distinct = distinct scripts, histories and effective mutations")
    ctx.cov["faults_injected"] = injected
    ctx.cov["fault_scripts"] = scripts_done
    ctx.cov["history_steps_checked"] = hsteps
    ctx.cov["histories"] = len(hist)
    ctx.cov["fault_points_exhaustive_per_script"] = True
    ctx.sample({"fault_script": fscripts[0]["stmts"]})
    ctx.sample({"history_ops": hist[0][0]["ops"][:6]})
    ctx.assumptions += ["faults are the engine's own TimeLimitError/MemoryLimitError/RegexTimeoutError raised at the loop heads where the engine itself raises them"]


def penc12(v):
    if v is None:
        return ["N"]
    if isinstance(v, bool):
        return ["b", v]
    if isinstance(v, (int, float)):
        import struct
        return ["d", struct.pack(">d", float(v)).hex()]
    if isinstance(v, str):
        return ["s", v]
    if isinstance(v, list):
        return ["l", [penc12(x) for x in v]]
    return ["m", [[k, penc12(x)] for k, x in v.items()]]


def numnorm12(e):
    import struct
    if e[0] == "i":
        return ["d", struct.pack(">d", float(int(e[1]))).hex()]
    if e[0] == "l":
        return ["l", [numnorm12(x) for x in e[1]]]
    if e[0] == "m":
        return ["m", [[k, numnorm12(x)] for k, x in e[1]]]
    return e
