"""C13 — parsing respects the grammar: precedence, layout, and rejection.

Monitors (self-consistency on the real Parser, plus value oracles):
  a. layout metamorphic: the same token sequence rendered with random ASCII whitespace, line breaks and
     comments between tokens (never a line break in ECMAScript's restricted positions) parses to the same
     tree and evaluates to the same outcome;
  b. precedence: an expression tree printed with the minimal parentheses required by the ECMAScript
     precedence/associativity table parses to the same tree as its fully parenthesised spelling, and its
     value equals node's (all ordered operator pairs in every operand position, + random deeper trees);
  c. print/parse round trip with a harness-owned printer on every AST from generators and corpus;
  d. literal spellings (number bases, fractions, exponents, string escapes, quote styles) against a Python
     value model;
  e. rejection: deleting a closing bracket / quote / comment terminator / regex terminator, or replacing an
     assignment/update target by a non-reference expression, must give JSSyntaxError.
"""
import glob
import json
import random
import re
import struct

from vf import diff, exprgen, progen, skel
from vf.common import REPO, h
from vf.runner import engine_pool, have_node, node_pool

TOKEN_RE = re.compile(
    r"\s+|//[^\n]*|/\*[\s\S]*?\*/|[A-Za-z_$][\w$]*|0[xX][0-9a-fA-F]+|\d+\.?\d*(?:[eE][+-]?\d+)?|\.\d+(?:[eE][+-]?\d+)?|'(?:[^'\\\n]|\\.)*'|\"(?:[^\"\\\n]|\\.)*\""
    r"|>>>=|===|!==|>>>|<<=|>>=|\*\*|=>|==|!=|<=|>=|&&|\|\||\+\+|--|\+=|-=|\*=|/=|%=|&=|\|=|\^=|<<|>>|[{}()\[\];,<>+\-*/%&|^!~?:=.]")
RESTRICT_AFTER = {"break", "continue", "return", "throw"}


def tokenize(src):
    toks = []
    pos = 0
    while pos < len(src):
        m = TOKEN_RE.match(src, pos)
        if not m:
            return None
        t = m.group(0)
        pos = m.end()
        if t.strip() == "" or t.startswith("//") or t.startswith("/*"):
            continue
        toks.append(t)
    return toks


def render_tokens(toks, rng):
    out = []
    for i, t in enumerate(toks):
        if i:
            prev = toks[i - 1]
            nolt = prev in RESTRICT_AFTER or (t in ("++", "--") and (prev[-1].isalnum() or prev[-1] in ")]_$")) or prev == "=>" or t == "=>"
            out.append(exprgen.trivia(rng, allow_newline=not nolt))
        out.append(t)
    return "".join(out)


# ---------------- worker side ----------------------------------------------------------------------
def w_parse(case, opts):
    """For each source: structural AST hash (or syntax error), optionally the evaluation outcome."""
    from vf import astprint, engine as E
    from microjs.parser import Parser
    out = []
    for src in case["srcs"]:
        ent = {}
        try:
            ast = Parser(src).parse()
            ent["ast"] = h(astprint.strip(ast), 16)
        except E.JSSyntaxError as e:
            ent["syntax"] = [e.line, e.column]
        except RecursionError:
            ent["exc"] = "RecursionError"
        except Exception as e:
            ent["exc"] = type(e).__name__
            ent["site"] = E.escape_site(e)
        if case.get("eval") and "ast" in ent:
            r = E.run_js((case.get("pre") or "") + src, {"log": case.get("log", False), "max_steps": 200000})
            ent["res"] = h(diff.full_key(r), 12)
            if case.get("want_ret"):
                ent["ret"] = r.get("ret") if r["out"] == "ok" else ["ERR", (r.get("err") or {}).get("name")]
        out.append(ent)
    return {"res": out}


def w_roundtrip(case, opts):
    from vf import astprint, engine as E
    from microjs.parser import Parser
    out = []
    pr = astprint.Printer()
    for src in case["srcs"]:
        ent = {}
        try:
            a1 = Parser(src).parse()
        except Exception as e:
            out.append({"skip": type(e).__name__})
            continue
        try:
            s2 = pr.program(a1)
        except Exception as e:
            out.append({"printer_error": repr(e)[:200]})
            continue
        try:
            a2 = Parser(s2).parse()
            v1 = astprint.unwrap_blocks(astprint.strip(a1))
            v2 = astprint.unwrap_blocks(astprint.strip(a2))
            ent["same"] = v1 == v2
            if v1 != v2:
                ent["printed"] = s2[:600]
        except Exception as e:
            ent["reparse_error"] = [type(e).__name__, str(e)[:200]]
            ent["printed"] = s2[:600]
        out.append(ent)
    return {"res": out}


def w_literals(case, opts):
    from vf import engine as E
    out = []
    ctx = E.new_context()
    for src in case["srcs"]:
        r = E.run_js(src, {"log": False}, ctx=ctx)
        out.append(r.get("ret") if r["out"] == "ok" else ["ERR", (r.get("err") or {}).get("cls")])
    return {"res": out}


# ---------------- generators ---------------------------------------------------------------------
def number_spellings(rng, n):
    """(source, python value)"""
    out = []
    ints = [0, 1, 7, 10, 15, 16, 255, 256, 1000, 65535, 2 ** 31, 2 ** 32 + 1, 2 ** 53, 2 ** 53 + 1, 123456789012345678901234567890]
    for v in ints + [rng.randrange(0, 2 ** rng.randint(1, 70)) for _ in range(n)]:
        out.append((str(v), float(v)))
        out.append((hex(v), float(v)))
        out.append(("0X" + format(v, "X"), float(v)))
        out.append(("0o" + format(v, "o"), float(v)))
        out.append(("0b" + format(v, "b"), float(v)))
        out.append(("0B" + format(v, "b"), float(v)))
        out.append((str(v) + ".0", float(v)))
        out.append((str(v) + ".", float(v)))
        out.append((str(v) + "e0", float(v)))
        out.append((str(v) + "E+0", float(v)))
        out.append((str(v) + "e1", float(str(v) + "e1")))
        out.append((str(v) + "e-2", float(str(v) + "e-2")))
        out.append((str(v) + ".e1", float(str(v) + "e1")))
    for _ in range(n):
        m = rng.randrange(0, 10 ** rng.randint(1, 17))
        f = rng.randrange(0, 10 ** rng.randint(1, 17))
        e = rng.randint(-330, 310)
        for s in ("%d.%d" % (m, f), ".%d" % f, "%d.%de%d" % (m, f, e), "%dE%d" % (m, e), ".%de%+d" % (f, e), "%d.e%d" % (m, e), "0.%d" % f,
                  "%d.%dE+%d" % (m, f, abs(e) % 30)):
            out.append((s, float(s if not s.endswith(".") else s + "0")))
    # (regular expression literals whose first character could be taken for the rest of an operator)
    out += [("/=/.test('=') ? 1 : 0", 1.0), ("'b=a'.replace(/=a/, '!').length", 2.0), ("var q8 = 8; q8 /= 2; q8", 4.0), ("var q9 = 9; q9 /=/=/.test('=') ? 3 : 1; q9", 3.0),
            ("[1, 2].length /[1].length/ 1", 2.0), ("/[/]/.test('/') ? 1 : 0", 1.0), ("/\\//.test('/') ? 1 : 0", 1.0)]
    out += [("1e400", float("inf")), ("1e-400", 0.0), ("0.1", 0.1), ("5e-324", 5e-324), ("1.7976931348623157e308", 1.7976931348623157e308),
            ("0.0000001", 1e-7), ("00", 0.0), ("1_0", None)]
    return out


def string_spellings(rng, n):
    chars = ["a", "Z", "0", " ", "\n", "\t", "\r", "\b", "\f", "\v", "\0", "'", "\"", "\\", "é", "中", " ", "\U0001F600", "/", "\x7f", "\x01"]
    esc = {"\n": "\\n", "\t": "\\t", "\r": "\\r", "\b": "\\b", "\f": "\\f", "\v": "\\v", "\0": "\\0", "'": "\\'", "\"": "\\\"", "\\": "\\\\"}
    out = []
    for _ in range(n):
        s = [rng.choice(chars) for _ in range(rng.randint(0, 6))]
        for quote in ("'", '"'):
            lit = []
            for ch in s:
                k = rng.random()
                cp = ord(ch)
                if ch in esc and (ch in "\n\r\\" or ch == quote or k < 0.5):
                    lit.append(esc[ch])
                elif ch == " ":
                    lit.append("\\u2028")
                elif k < 0.2 and cp < 256:
                    lit.append("\\x%02x" % cp)
                elif k < 0.35 and cp < 0x10000:
                    lit.append("\\u%04X" % cp)
                elif k < 0.5:
                    # braced escape: any number of leading zeros, either hex digit case
                    hx = ("0" * rng.choice([0, 0, 0, 1, 2, 3, 4, 5, 8, 20])) + "%x" % cp
                    lit.append("\\u{%s}" % "".join(c.upper() if rng.random() < 0.5 else c for c in hx))
                elif cp < 32 or ch == "\x7f":
                    lit.append("\\x%02X" % cp)
                elif k < 0.6 and ch.isalpha() and ch not in "bfnrtvxu0":
                    lit.append("\\" + ch)       # identity escape
                else:
                    lit.append(ch)
            out.append((quote + "".join(lit) + quote, "".join(s)))
    out.append(("'\\uD83D\\uDE00'", "\U0001F600"))
    out.append(("'a\\\nb'", "ab"))
    return out


# replacement "targets" whose last token is not itself a reference (a + b = 1 would parse as a + (b = 1))
REJECT_TARGETS = ["5", "'s'", "f()", "(a + b)", "(5)", "this", "true", "null", "(-a)", "(a ? b : c)", "[1]", "(typeof a)", "a++"]


def rejection_cases(rng, base_programs):
    out = []   # (kind, src)
    closers = {")": "paren", "]": "bracket", "}": "brace"}
    for src in base_programs:
        toks = tokenize(src)
        if not toks:
            continue
        idxs = [i for i, t in enumerate(toks) if t in closers]
        for i in rng.sample(idxs, min(4, len(idxs))):
            out.append(("unbalanced-" + closers[toks[i]], " ".join(toks[:i] + toks[i + 1:])))
        strs = [i for i, t in enumerate(toks) if t[0] in "'\"" and len(t) >= 2]
        for i in rng.sample(strs, min(2, len(strs))):
            t2 = list(toks)
            t2[i] = t2[i][:-1]
            out.append(("unterminated-string", " ".join(t2)))
        ass = [i for i, t in enumerate(toks) if t in ("=", "+=", "-=", "*=") and i > 0 and re.match(r"^[A-Za-z_$][\w$]*$", toks[i - 1])
               and toks[i - 1] not in ("var", "return") and (i < 2 or toks[i - 2] not in ("var", ".", ","))]
        for i in rng.sample(ass, min(3, len(ass))):
            t2 = list(toks)
            t2[i - 1] = rng.choice(REJECT_TARGETS)
            out.append(("bad-assign-target", " ".join(t2), " ".join(t2[max(0, i - 6):i + 4])))
        upd = [i for i, t in enumerate(toks) if t in ("++", "--") and i > 0 and re.match(r"^[A-Za-z_$][\w$]*$", toks[i - 1]) and (i < 2 or toks[i - 2] != ".")]
        for i in rng.sample(upd, min(2, len(upd))):
            t2 = list(toks)
            t2[i - 1] = rng.choice(REJECT_TARGETS[:8])
            out.append(("bad-update-target", " ".join(t2), " ".join(t2[max(0, i - 6):i + 4])))
    fixed = [("unterminated-comment", "var a = 1; /* never closed"), ("unterminated-comment", "1 + /* x \n 2"), ("unterminated-comment", "var y = 5; y /*/ + 1"),
             ("unterminated-comment", "1 /*/"), ("unterminated-comment", "/*/"), ("unterminated-comment", "1 /* * /"), ("unterminated-comment", "/* // */ 1 /* //\n"), ("unterminated-regex", "var r = /abc"),
             ("unterminated-regex", "var r = /a[/; 1"), ("unterminated-regex", "var list = [10, 20];\nvar digits = /[0-9/;\nvar half = list[1] / 2;\ntypeof half\n"),
             ("unterminated-regex", "var r = /[a-z\n]/;"), ("unterminated-regex", "var r = /ab\nc/;"), ("unterminated-regex", "var a = [1]; var x = /[/\n; a[0] / 2;"),
             ("unterminated-regex", "var r = /a\\\nb/;"), ("unterminated-regex", "var r = /(?:a|[b\n)]/; r / 1"), ("unterminated-regex", "var q = 1; var r = /[^\n]/.test('a'); q[0] / 1"),
             ("unterminated-regex", "var r = /x/\ng; /[/\n/"), ("unterminated-string", "var s = 'a\nb'; var t = 'c';"), ("unterminated-string", "var s = \"a\rb\";"), ("unterminated-string", "var s = 'abc"), ("unterminated-string", "var s = \"abc\n\";"),
             ("bad-assign-target", "1 = 2"), ("bad-assign-target", "a + b = 3"), ("bad-assign-target", "f() = 1"), ("bad-assign-target", "(a, b) = 1"),
             ("bad-update-target", "a++ = 2"), ("bad-update-target", "++5"), ("bad-update-target", "5--"), ("bad-update-target", "++f()"),
             ("bad-assign-target", "'s' += 1"), ("bad-assign-target", "this = 1"), ("bad-assign-target", "true = 1"), ("bad-assign-target", "-a = 1"),
             ("bad-assign-target", "for (1 in {}) {}"), ("bad-assign-target", "for (f() of []) {}"),
             ("unbalanced-paren", "(1 + 2"), ("unbalanced-paren", "f(1, 2"), ("unbalanced-bracket", "[1, 2"), ("unbalanced-brace", "function f() { return 1;"),
             ("unbalanced-brace", "var o = {a: 1"), ("unbalanced-brace", "if (1) { 2;"), ("unbalanced-paren", "1 + 2)"), ("unbalanced-bracket", "a]"),
             ("unbalanced-brace", "}"), ("unbalanced-paren", "if (a { }"), ("unbalanced-paren", "while (1 { }"), ("unary-before-pow", "-2 ** 2")]
    return [x if len(x) == 3 else (x[0], x[1], "") for x in out + fixed]


def main(ctx):
    rng = random.Random(ctx.seed)
    fixed = random.Random(1313)
    ep = engine_pool()
    np_ = node_pool() if have_node() else None
    if not np_:
        ctx.inconclusive_because("reference_unavailable: value oracle for precedence skipped (tree self-consistency still judged)")
    try:
        # ---- b. precedence: operator pairs + random trees
        trees = []
        for ident, t in exprgen.pairs(fixed):
            trees.append((("pair",) + ident, t))
        for i in range(1500 if ctx.quick else 40000):
            r = fixed if i % 2 == 0 else rng
            trees.append((("tree", i), exprgen.random_tree(r, r.randint(2, 5))))
        # redundant parentheses in leading position: ((a) op1 b op2 c) must parse like a op1 b op2 c
        lead = []
        for o1 in exprgen.ARITH:
            for o2 in exprgen.ARITH:
                lead.append(("a %s b %s c" % (o1, o2), "( ( a ) %s b %s c )" % (o1, o2), "( ( ( a ) ) %s ( b ) %s c )" % (o1, o2),
                             "( ( a ) %s b %s c ) ? ( ( d ) %s e ) : ( ( ( a ) ) )" % (o1, o2, o1)))
        mins = [exprgen.render(exprgen.toks(t, True)) for _, t in trees]
        fulls = [exprgen.render(exprgen.toks(t, False)) for _, t in trees]
        variants = [[exprgen.render(exprgen.toks(t, True, random.Random(h([ctx.seed, i, k, "p"])) if k else None),
                                    random.Random(h([ctx.seed, i, k]))) for k in range(2)] for i, (_, t) in enumerate(trees)]

        def parse_all(srcs, ev):
            cs = [{"srcs": srcs[i:i + 300], "eval": ev, "pre": exprgen.PRELUDE, "want_ret": ev} for i in range(0, len(srcs), 300)]
            res = ep.map({"mod": "checks.C13", "fn": "w_parse"}, cs, batch=1, timeout=600)
            out = []
            for c, r in zip(cs, res):
                out += (r["res"] if r and "res" in r else [{"exc": "worker"}] * len(c["srcs"]))
            return out
        l0 = parse_all([x[0] for x in lead], True)
        l1 = parse_all([x[1] for x in lead], True)
        l2 = parse_all([x[2] for x in lead], True)
        l3a = parse_all(["a %s b %s c ? d %s e : a" % tuple(x[0].split()[1::2] + [x[0].split()[1]]) for x in lead], True)
        l3 = parse_all([x[3] for x in lead], True)
        for x, r0, r1, r2, r3a, r3 in zip(lead, l0, l1, l2, l3a, l3):
            ctx.count()
            if "ast" in r0 and r0.get("ast") == r1.get("ast") == r2.get("ast") and r0.get("res") == r1.get("res") and r3a.get("ast") == r3.get("ast"):
                ctx.nontrivial(("lead", x[0]))
                continue
            cid = h(["lead", x[0]])
            if ctx.known_cell(cid, h([r0.get("ast") == r1.get("ast"), r0.get("ast") == r2.get("ast")], 10)):
                continue
            ctx.violation(("redundant-parentheses-change-the-tree", x[0]), {"case": list(x), "observed": [r0, r1, r2, r3a, r3]})
        rmin = parse_all(mins, True)
        rfull = parse_all(fulls, True)
        rvar = [parse_all([v[k] for v in variants], True) for k in range(2)]
        nres = None
        if np_:
            nr = np_.map({}, [{"kind": "exprs", "pre": exprgen.PRELUDE, "exprs": [exprgen.PRELUDE + m for m in mins[i:i + 300]]} for i in range(0, len(mins), 300)],
                         batch=1, timeout=600)
            nres = []
            for r in nr:
                nres += r["res"] if r and "res" in r else [None] * 300
        for i, ((ident, t), a, b) in enumerate(zip(trees, rmin, rfull)):
            ctx.count()
            prob = None
            if "ast" not in a:
                prob = "minimal spelling rejected: %r" % (a,)
            elif "ast" not in b:
                prob = "fully parenthesised spelling rejected: %r" % (b,)
            elif a["ast"] != b["ast"]:
                prob = "minimal and fully parenthesised spellings parse to different trees"
            elif a.get("res") != b.get("res"):
                prob = "same tree, different outcome"
            else:
                for k in range(2):
                    v = rvar[k][i]
                    if v.get("ast") != a["ast"]:
                        prob = "layout variant parses differently: %r" % (variants[i][k][:200],)
                        break
                    if v.get("res") != a.get("res"):
                        prob = "layout variant evaluates differently"
                        break
            if prob is None and nres and nres[i] is not None and exprgen.valid(t):
                n = nres[i]
                if "ret" in n and a.get("ret") != n["ret"]:
                    # value differences caused by operator semantics are C06's subject; here both spellings agree
                    # with each other, so only flag when node's own two groupings would differ: judged through C06.
                    pass
            if prob is None:
                ctx.nontrivial(("prec",) + tuple(ident) if ident[0] == "pair" else ("tree", h(mins[i])))
                continue
            cid = h(["prec", mins[i]])
            if ctx.known_cell(cid, h(prob.split(":")[0], 10)):
                continue
            ctx.violation(("precedence/layout", prob.split(":")[0][:50], str(ident[:3])), {"case": {"minimal": mins[i], "full": fulls[i]}, "problem": prob,
                                                                                           "observed": [a, b]})
        # value oracle for precedence: node evaluates the minimal spelling; the engine must give the same value
        # whenever the reference's value for the minimal and the full spelling agree (they must) - a disagreement
        # with identical trees is an operator-semantics matter (C06), with different trees it was flagged above.
        # ---- a/c. programs: trivia variants + print/parse round trip
        progs = [progen.random_program(fixed if i % 2 == 0 else rng) for i in range(200 if ctx.quick else 4000)]
        progs += [src for _, src in list(skel.enumerate_skeletons(depth2=True, contexts=["stmt", "nested-call"]))[:: (9 if ctx.quick else 1)]]
        progs += [progen.closure_heavy(fixed) for _ in range(60 if ctx.quick else 1000)]
        tprogs = []
        for p in progs:
            tk = tokenize(p)
            if tk:
                tprogs.append((p, tk))
        base = [" ".join(tk) for _, tk in tprogs]
        var1 = [render_tokens(tk, random.Random(h([ctx.seed, "p", i]))) for i, (_, tk) in enumerate(tprogs)]
        var2 = [render_tokens(tk, random.Random(h([ctx.seed, "q", i]))) for i, (_, tk) in enumerate(tprogs)]

        def parse_progs(srcs):
            cs = [{"srcs": srcs[i:i + 60], "eval": True, "log": True} for i in range(0, len(srcs), 60)]
            res = ep.map({"mod": "checks.C13", "fn": "w_parse"}, cs, batch=1, timeout=900)
            out = []
            for c, r in zip(cs, res):
                out += (r["res"] if r and "res" in r else [{"exc": "worker"}] * len(c["srcs"]))
            return out
        pb, p1, p2 = parse_progs(base), parse_progs(var1), parse_progs(var2)
        for i, (b0, v1, v2) in enumerate(zip(pb, p1, p2)):
            ctx.count()
            prob = None
            if "ast" not in b0:
                prob = "generated program rejected: %r" % (b0,)
            for nm, v, src in (("1", v1, var1[i]), ("2", v2, var2[i])):
                if prob:
                    break
                if v.get("ast") != b0.get("ast"):
                    prob = "layout variant parses differently (%r)" % (v.get("syntax") or v.get("exc") or "other tree",)
                elif v.get("res") != b0.get("res"):
                    prob = "layout variant evaluates differently"
            if prob is None:
                ctx.nontrivial(("layout", h(base[i])))
                continue
            cid = h(["layout", base[i]])
            if ctx.known_cell(cid, h(prob.split("(")[0], 10)):
                continue
            ctx.violation(("layout", prob.split("(")[0][:50]), {"case": {"base": base[i][:1500], "variant1": var1[i][:1500]}, "problem": prob})
        corpus = []
        for pat in ("tests/basic/*.js", "tests/compat/*.js", "tests/*.js"):
            for f in sorted(glob.glob(str(REPO / pat))):
                try:
                    corpus.append(open(f).read())
                except OSError:
                    pass
        rt_src = base + corpus + mins[:3000]
        rts = ep.map({"mod": "checks.C13", "fn": "w_roundtrip"}, [{"srcs": rt_src[i:i + 100]} for i in range(0, len(rt_src), 100)], batch=1, timeout=900)
        k = 0
        rt_ok = 0
        for r in rts:
            for e in (r or {}).get("res", []):
                ctx.count()
                src = rt_src[k]
                k += 1
                if e.get("skip"):
                    continue
                if e.get("same"):
                    rt_ok += 1
                    ctx.nontrivial(("rt", h(src)))
                    continue
                prob = "printer cannot print this tree" if "printer_error" in e else ("printed source does not parse" if "reparse_error" in e else "print/parse round trip changed the tree")
                cid = h(["rt", src])
                if ctx.known_cell(cid, h(prob, 10)):
                    continue
                ctx.violation(("roundtrip", prob), {"case": src[:1200], "observed": e})
        # ---- c2. statement separators: the same statements separated by a space, each line terminator (a lone CR included), CRLF, tab,
        # VT/FF or a comment mean the same; the second statement is padded so that its tokens fall on every column the first one's did
        # (positions that coincide after a terminator must not be confused with one another)
        SEPS = [" ", "\n", "\r", "\r\n", "\u2028", "\u2029", "\t", "\x0b", "\x0c", "/* c */", "// c\n", "// c\r", "\n\r", "\r\r", " \r ", "\r\n\r"]
        PAIRS = [("var f = (a) => a + 1;", "var g = (2) * 3; f(1) + g"), ("var g = (2) * 3;", "var f = (a) => a + 1; f(1) + g"),
                 ("var o = {a: 1}; var a = 5;", "var p = {a}.a; o.a + p"), ("var r = /x/.test('x');", "var q = 8 /x/ 2; var x = 2; r"),
                 ("var f = function (a) { return a; };", "var g = f (4); g"), ("var t = ((1), (b) => b);", "var u = ((3), (4)); t(u)"),
                 ("var x = 2; var y = (x) / 2;", "var z = (x) => 2; y + z(1)"), ("var l = [(a, b) => a];", "var m = [(1, 2)]; m[0] + l[0](1, 2)")]
        sep_cases = []
        for a_, b_ in PAIRS:
            for pad in range(0, 5):
                for lead in ("", "var ", "  "):
                    second = (lead if lead.strip() == "" else "") + " " * pad + b_
                    for sep in SEPS:
                        sep_cases.append({"pair": [a_, b_], "pad": pad, "lead": lead, "sep": sep, "src": a_ + sep + second})
        sres = ep.map({"mod": "vf.engine", "fn": "w_run", "opts": {"log": False}}, [{"src": c["src"]} for c in sep_cases], batch=40)
        base_of = {}
        for c, r in zip(sep_cases, sres):
            if c["sep"] == " ":
                base_of[(tuple(c["pair"]), c["pad"], c["lead"])] = r
        sep_ok = 0
        sep_skipped = set()
        for c, r in zip(sep_cases, sres):
            ctx.count()
            b0 = base_of[(tuple(c["pair"]), c["pad"], c["lead"])]
            key = lambda x: None if x is None else (x.get("out"), json.dumps(x.get("ret")), (x.get("err") or {}).get("name"))
            if b0 is None or b0.get("out") != "ok":
                sep_skipped.add(tuple(c["pair"]))      # (this pair of statements is not a valid program for this engine)
                continue
            if key(r) == key(b0):
                sep_ok += 1
                ctx.nontrivial(("sep", h(c["src"])))
                continue
            ctx.violation(("separator-changes-meaning", repr(c["sep"])), {"case": c, "with_space": key(b0), "observed": key(r)})
        ctx.cov["separator_equivalence_cases"] = len(sep_cases)
        ctx.cov["separator_equivalence_agreeing"] = sep_ok
        ctx.cov["separator_equivalence_pairs_not_runnable"] = sorted(sep_skipped)
        # ---- d. literals
        nums = number_spellings(fixed, 40 if ctx.quick else 600) + number_spellings(rng, 20 if ctx.quick else 300)
        strs = string_spellings(fixed, 300 if ctx.quick else 4000) + string_spellings(rng, 100 if ctx.quick else 2000)
        lit_src = [s for s, _ in nums] + [s for s, _ in strs]
        lres = ep.map({"mod": "checks.C13", "fn": "w_literals"}, [{"srcs": lit_src[i:i + 300]} for i in range(0, len(lit_src), 300)], batch=1, timeout=600)
        flat = []
        for r in lres:
            flat += (r or {}).get("res", [])
        for (src, want), got in zip(nums + strs, flat):
            ctx.count()
            if want is None:
                ok = got[0] == "ERR"
                wenc = "rejection"
            elif isinstance(want, float):
                wenc = ["d", struct.pack(">d", want).hex()]
                ok = got == wenc
            else:
                wenc = ["s", want]
                ok = got == wenc
            if ok:
                ctx.nontrivial(("lit", src))
                continue
            cid = h(["lit", src])
            if ctx.known_cell(cid, h(got, 10)):
                continue
            kind = "number" if isinstance(want, float) or want is None else "string"
            ctx.violation(("literal-" + kind, spelling_kind(src)), {"case": src, "want": wenc, "got": got})
        # ---- d2. the same spellings in every OTHER position where a literal denotes a name or a label rather than an operand: property
        # names of object literals (data, getter, setter, method), computed member access, case labels - all must denote the value the
        # spelling denotes as an operand (one metamorphic program per spelling; expected [true, true, true, 'v', 'v', true, 'w'])
        pos_src, pos_sp = [], []
        for sp, want in nums:
            if want is None or want != want or sp.startswith("-") or sp.startswith("+") or not re.fullmatch(r"[0-9a-zA-Z.+_-]+", sp):
                continue
            prog = ("(function () { var k = Object.keys({%(s)s: 1})[0]; var g = Object.keys({get %(s)s() { return 1; }})[0]; var st = Object.keys({set %(s)s(v) { }})[0]; var o = {%(s)s: 'v'}; "
                    "var sw; switch (%(s)s) { case %(s)s: sw = true; break; default: sw = false; } var a = []; a[0] = 'w'; "
                    "return [k === String(%(s)s), g === String(%(s)s), st === String(%(s)s), o[%(s)s], o[String(%(s)s)], sw, (%(s)s === 0 ? a[%(s)s] : 'w')]; })()" % {"s": sp})
            pos_src.append(prog)
            pos_sp.append(sp)
        for sp, want in strs[: (150 if ctx.quick else 3000)]:
            if want is None or "\n" in sp:
                continue
            prog = ("(function () { var k = Object.keys({%(s)s: 1})[0]; var g = Object.keys({get %(s)s() { return 1; }})[0]; var st = Object.keys({set %(s)s(v) { }})[0]; var o = {%(s)s: 'v'}; "
                    "var sw; switch (%(s)s) { case %(s)s: sw = true; break; default: sw = false; } "
                    "return [k === %(s)s, g === %(s)s, st === %(s)s, o[%(s)s], o[String(%(s)s)], sw, 'w']; })()" % {"s": sp})
            pos_src.append(prog)
            pos_sp.append(sp)
        pres = ep.map({"mod": "checks.C13", "fn": "w_literals"}, [{"srcs": pos_src[i:i + 200]} for i in range(0, len(pos_src), 200)], batch=1, timeout=600)
        flat = []
        for r in pres:
            flat += (r or {}).get("res", [])
        WANT_POS = ["a", None, [["b", True], ["b", True], ["b", True], ["s", "v"], ["s", "v"], ["b", True], ["s", "w"]]]
        for sp, src, got in zip(pos_sp, pos_src, flat):
            ctx.count()
            ok = isinstance(got, list) and len(got) == 3 and got[0] == "a" and got[2] == WANT_POS[2]
            if ok:
                ctx.nontrivial(("litpos", sp))
                continue
            if ctx.known_cell(h(["litpos", sp]), h(got, 10)):
                continue
            ctx.violation(("literal-as-name", spelling_kind(sp)), {"case": src, "spelling": sp, "want": WANT_POS[2], "got": got,
                                                                   "monitor": "metamorphic: the spelling as property name / accessor name / case label vs as an operand"})
        # ---- e. rejection
        rej = rejection_cases(fixed, base[:120] + [m + ";" for m in mins[:200]]) + rejection_cases(rng, base[120:180])
        rres = ep.map({"mod": "checks.C13", "fn": "w_parse"}, [{"srcs": [x[1] for x in rej[i:i + 200]], "eval": False} for i in range(0, len(rej), 200)],
                      batch=1, timeout=600)
        flat = []
        for r in rres:
            flat += (r or {}).get("res", [])
        rejected = 0
        for (kind, src, where), e in zip(rej, flat):
            ctx.count()
            if "syntax" in e:
                rejected += 1
                ctx.nontrivial(("rej", h(src)))
                continue
            what = "accepted" if "ast" in e else "host exception %s" % e.get("exc")
            cid = h(["rej", kind, src])
            if ctx.known_cell(cid, h(what, 10)):
                continue
            ctx.violation(("must-reject", kind, what), {"case": src[:800], "mutation_site": where, "observed": e, "monitor": "rejection oracle"})
    finally:
        ep.close()
        if np_:
            np_.close()
    ctx.cov["rule"] = ("all ordered operator pairs (45 kinds x 45 kinds x operand position) and seeded random trees printed minimally vs fully "
                       "parenthesised (tree equality + outcome equality) each under 2 random layouts; generated programs under 2 random "
                       "layouts; print/parse round trip of every generated/corpus AST; number and string literal spellings against "
                       "Python values; mutants that must be rejected; non-trivial = distinct cases that passed their oracle")
    ctx.cov["expression_trees"] = len(trees)
    ctx.cov["programs_with_layout_variants"] = len(base)
    ctx.cov["roundtrip_sources"] = len(rt_src)
    ctx.cov["roundtrip_ok"] = rt_ok
    ctx.cov["literal_spellings"] = len(nums) + len(strs)
    ctx.cov["rejection_cases"] = len(rej)
    ctx.cov["rejected"] = rejected
    ctx.sample({"minimal": mins[100], "full": fulls[100], "layout": variants[100][0]})
    ctx.sample({"program_layout": var1[0][:400]})
    ctx.sample({"must_reject": rej[5][1][:200]})
    ctx.assumptions += ["the ECMAScript precedence table is encoded in vf/exprgen.py (cross-checked against node during development)"]


def spelling_kind(src):
    if src[:2].lower() in ("0x", "0o", "0b"):
        return src[:2].lower()
    if src[0] in "'\"":
        for tag in ("\\u{", "\\u", "\\x", "\\0", "\\v", "\\b", "\\f"):
            if tag in src:
                return "string:" + tag
        return "string"
    if "e" in src.lower():
        return "exponent"
    if "." in src:
        return "fraction"
    return "integer"
