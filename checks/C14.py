"""C14 — program size never changes meaning: big programs run right or are refused.

Monitors: (1) closed-form oracle on the result of each (template, n); (2) icontract postconditions placed from
the harness on the real Compiler._emit / Compiler._patch_jump: on normal return the bytes written encode the
operand / jump target exactly (silent masking is exactly the truncation the property forbids), evaluation counts
reported; (3) decode monitor in the VM step hook: the instruction pointer of the running frame is always an
instruction boundary of its function and constant/local operands are in range; (4) only JSError may escape.
"""
import random
import re

from vf.common import h
from vf.runner import engine_pool

SCALES_Q = [1, 2, 127, 128, 254, 255, 256, 257, 511, 512, 1000, 4095, 4096]
SCALES_T = SCALES_Q + [6552, 6553, 6554, 7000, 9362, 9363, 13106, 13107, 21845, 21846, 32767, 32768, 65535, 65536, 70000, 200000]
REFUSAL = re.compile(r"too large|too many|exceeds", re.I)


def T_stmts(n):
    return "var s = 0; " + "s += 1; " * n + "s", n


def T_func_body(n):
    return "function f() { var s = 0; " + "s += 1; " * n + "return s; } f()", n


def T_while(n):
    return "var s = 0, i = 0; while (i < 2) { i++; " + "s += 1; " * n + "} s", 2 * n


def T_for(n):
    return "var s = 0; for (var i = 0; i < 3; i++) { " + "s += 1; " * n + "} s", 3 * n


def T_dowhile(n):
    return "var s = 0, i = 0; do { i++; " + "s += 1; " * n + "} while (i < 2); s", 2 * n


def T_if_true(n):
    return "var s = 0, c = 1; if (c) { " + "s += 1; " * n + "} else { " + "s += 2; " * n + "} s", n


def T_if_false(n):
    return "var s = 0, c = 0; if (c) { " + "s += 1; " * n + "} else { " + "s += 2; " * n + "} s", 2 * n


def T_if_skip(n):
    return "var s = 5, c = 0; if (c) { " + "s += 1; " * n + "} s", 5


def T_switch_bodies(n):
    return "var s = 0; switch (2) { case 1: " + "s += 1; " * n + "break; case 2: " + "s += 2; " * n + "break; default: s = -1; } s", 2 * n


def T_switch_cases(n):
    cases = " ".join("case %d: s = %d; break;" % (i, i * 3) for i in range(n))
    return "var s = -1; switch (%d) { %s default: s = -2; } s" % (n - 1, cases), (n - 1) * 3


def T_try(n):
    return "var s = 0; try { " + "s += 1; " * n + "throw 1; } catch (e) { s += 1000000; } s", n + 1000000


def T_try_finally(n):
    return "var s = 0; function f() { try { return 1; } finally { " + "s += 1; " * n + "} } f(); s", n


def T_array_same(n):
    return "[" + ", ".join(["1"] * n) + "].length", n


def T_array_distinct(n):
    return "var a = [" + ", ".join(str(i) for i in range(n)) + "]; a[a.length - 1] + a.length", (n - 1) + n


def T_object(n):
    return "var o = {" + ", ".join("k%d: %d" % (i, i) for i in range(n)) + "}; Object.keys(o).length + o.k%d" % (n - 1), n + n - 1


def T_call_args(n):
    return "function f() { return arguments.length; } f(" + ", ".join(["1"] * n) + ")", n


def T_params(n):
    ps = ", ".join("p%d" % i for i in range(n))
    return "function f(%s) { return p%d + p0; } f(%s)" % (ps, n - 1, ", ".join(str(i) for i in range(n))), (n - 1)


def T_num_consts(n):
    return " + ".join(str(i) for i in range(n)), n * (n - 1) // 2


def T_str_consts(n):
    return " + ".join("'s%d'.length" % i for i in range(n)), sum(len("s%d" % i) for i in range(n))


def T_globals(n):
    return " ".join("var g%d = %d;" % (i, i) for i in range(n)) + " g%d + g0" % (n - 1), n - 1


def T_locals(n):
    return "function f() { " + " ".join("var l%d = %d;" % (i, i) for i in range(n)) + " return l%d + l0; } f()" % (n - 1), n - 1


def T_captured(n):
    return ("function f() { " + " ".join("var c%d = %d;" % (i, i) for i in range(n)) +
            " return function () { return " + " + ".join("c%d" % i for i in range(n)) + "; }; } f()()"), n * (n - 1) // 2


def T_functions(n):
    return " ".join("function f%d() { return %d; }" % (i, i) for i in range(n)) + " f%d() + f0()" % (n - 1), n - 1


def T_sum_ones(n):
    return " + ".join(["1"] * n), n


def T_string_len(n):
    return "'" + "x" * n + "'.length", n


# ---- large literals and tokens: n digits / characters in ONE token
def T_lit_int_digits(n):
    return "1" + "0" * (n - 1) + " === 1e%d" % (n - 1), True


def T_lit_nines(n):
    return "9" * n + " >= 9e%d" % (n - 1), True


def T_lit_frac_digits(n):
    return "0." + "0" * (n - 1) + "1 === 1e-%d" % n, True


def T_lit_leading_zero_frac(n):
    return "1." + "0" * n + " === 1", True


def T_lit_hex_digits(n):
    return "0x" + "f" * n + " === Math.pow(2, %d) - %d" % (4 * n, 1 if n < 14 else 0), True


def T_lit_bin_digits(n):
    return "0b" + "1" * n + " === Math.pow(2, %d) - %d" % (n, 1 if n < 54 else 0), True


def T_lit_oct_digits(n):
    return "0o" + "7" * n + " === Math.pow(2, %d) - %d" % (3 * n, 1 if n < 18 else 0), True


def T_lit_exponent_zeros(n):
    return "1e" + "0" * (n - 1) + "5 === 100000", True


def T_lit_identifier(n):
    nm = "a" * n
    return "var %s = 5; %s" % (nm, nm), 5


def T_lit_property_name(n):
    nm = "k" * n
    return "var o = {%s: 3}; o.%s + o['%s']" % (nm, nm, nm), 6


def T_lit_comment(n):
    return "/*" + "x" * n + "*/ 7 //" + "y" * n, 7


def T_lit_string_escapes(n):
    return "'" + "\\n" * n + "'.length", n


def T_lit_regex_source(n):
    return "/" + "a" * n + "/.source.length", n


def T_lit_whitespace(n):
    return " " * n + "4" + "\n" * n + "+ 4", 8


# ---- several constant pools of size ~n in one compilation: siblings of every function kind next to a program-level pool that reuses
# some of their values (an index resolved against the wrong pool alters operands silently)
def _pool_sum(base, n):
    return sum(base + i for i in range(n))


def _sibling_pools(n, mk_a, mk_b):
    body_a = "var t = 0; " + " ".join("t += %d;" % (1000 + i) for i in range(n)) + " return t;"
    body_b = "var u = 0; " + " ".join("u += %d;" % (5000 + 2 * i) for i in reversed(range(n))) + " return u;"
    prog = "var s = 0; " + " ".join("s += %d;" % (i + 1) for i in range(n)) + " " + " ".join("s += %d;" % (1000 + n - 1 - i) for i in range(n)) + " " + " ".join("s += %d;" % (5000 + 2 * i) for i in range(0, n, 3))
    src = mk_a(body_a) + "\n" + mk_b(body_b) + "\n" + prog + "\nfa() + 3 * fb() + 7 * s"
    want = _pool_sum(1000, n) + 3 * sum(5000 + 2 * i for i in range(n)) + 7 * (n * (n + 1) // 2 + _pool_sum(1000, n) + sum(5000 + 2 * i for i in range(0, n, 3)))
    return src, want


def T_pools_arrow_arrow(n):
    return _sibling_pools(n, lambda b: "var fa = () => { " + b + " };", lambda b: "var fb = () => { " + b + " };")


def T_pools_arrow_function(n):
    return _sibling_pools(n, lambda b: "var fa = () => { " + b + " };", lambda b: "function fb() { " + b + " }")


def T_pools_function_arrow(n):
    return _sibling_pools(n, lambda b: "function fa() { " + b + " }", lambda b: "var fb = (x) => { " + b + " };")


def T_pools_method_getter(n):
    return _sibling_pools(n, lambda b: "var oa = {m() { " + b + " }}; function fa() { return oa.m(); }", lambda b: "var ob = {get g() { " + b + " }}; function fb() { return ob.g; }")


def T_pools_nested_arrow_in_function(n):
    return _sibling_pools(n, lambda b: "function fa() { var inner = () => { " + b + " }; return inner(); }", lambda b: "var fb = function () { return (() => { " + b + " })(); };")


def T_pools_arrow_in_arrow(n):
    return _sibling_pools(n, lambda b: "var fa = () => { var k = () => { " + b + " }; return k(); };", lambda b: "var fb = () => (() => { " + b + " })();")


def T_pools_newfunction_eval(n):
    return _sibling_pools(n, lambda b: "var fa = new Function(%r);" % b, lambda b: "var fb = function () { return (0, eval)(%r); };" % ("(function () { " + b + " })()"))


def T_pools_callback_arrows(n):
    return _sibling_pools(n, lambda b: "function fa() { return [0].map(() => { " + b + " })[0]; }", lambda b: "function fb() { var r; [0].forEach(() => { r = (() => { " + b + " })(); }); return r; }")


# ---- one very long source LINE: columns beyond 65535, parenthesised expressions and arrow functions at every distance
def T_long_line_parens(n):
    # n = 16 * count + pad: count statements of 11 characters and pad blanks on ONE line between a grouping paren and an arrow
    # function's parameter list, so that the distance between the two parens takes every value in a window around 65536 columns
    count, pad = divmod(n, 16)
    src = "var x = 0; var g = (1 + 2);" + " " * pad + " " + "x = x + 1; " * count + "var f = (a, b) => a * b; var h = (x); f(6, 7) + g + h"
    return src, 42 + 3 + count


def T_long_line_arrows(n):
    count, pad = divmod(n, 16)
    src = "var k = (p) => p + 1;" + " " * pad + " var s = 0; " + "s += k(1); " * count + "var q = (s); var m = (u, v) => u - v; m(q, 0)"
    return src, 2 * count


def T_and_chain(n):
    return " && ".join(["1"] * n) + " && 7", 7


def T_or_chain(n):
    return " || ".join(["0"] * n) + " || 9", 9


def T_ternary_chain(n):
    return "var k = %d; " % (n - 1) + " ".join("k === %d ? %d :" % (i, i + 100) for i in range(n)) + " -1", n - 1 + 100


def T_loop_break_far(n):
    return "var s = 0; for (var i = 0; i < 5; i++) { if (i === 2) break; " + "s += 1; " * n + "} s", 2 * n


def T_loop_continue_far(n):
    return "var s = 0; for (var i = 0; i < 4; i++) { if (i % 2) continue; " + "s += 1; " * n + "} s", 2 * n


def T_late_dowhile(n):
    # a loop that starts after n statements: its backward jump target is beyond 65535 for large n
    return "var s = 0, i = 0; " + "s += 1; " * n + "do { i++; s += 1; } while (i < 3); s", n + 3


def T_late_while(n):
    return "var s = 0, i = 0; " + "s += 1; " * n + "while (i < 3) { i++; s += 1; } s", n + 3


def T_late_loop_in_func(n):
    return "function f() { var s = 0, i = 0; " + "s += 1; " * n + "do { i++; s += 1; } while (i < 3); return s; } f()", n + 3


def T_dowhile_continue_far(n):
    # the continue target (the test, after the body) is the only jump operand that grows with n
    return "var i = 0, s = 0; do { i++; if (i % 2 == 1) continue; " + "s += 1; " * n + "} while (i < 4); s", 2 * n


def T_for_notest_continue_far(n):
    return "function f() { var s = 0; for (var i = 0; ; i++) { if (i >= 4) return s; if (i % 2) continue; " + "s += 1; " * n + "} } f()", 2 * n


def T_labelled_continue_far(n):
    return ("var s = 0; outer: for (var i = 0; i < 4; i++) { for (var j = 0; j < 2; j++) { if (i % 2) continue outer; } " + "s += 1; " * n + "} s"), 2 * n


def T_labelled_continue_dowhile_far(n):
    return ("var s = 0, i = 0; outer: do { i++; for (var j = 0; j < 2; j++) { if (i % 2) continue outer; } " + "s += 1; " * n + "} while (i < 4); s"), 2 * n


def T_forin_continue_far(n):
    return "var s = 0; for (var k in {a: 1, b: 2, c: 3, d: 4}) { if (k === 'a' || k === 'c') continue; " + "s += 1; " * n + "} s", 2 * n


def T_forof_break_far(n):
    return "var s = 0; for (var v of [1, 2, 3, 4]) { if (v === 3) break; " + "s += 1; " * n + "} s", 2 * n


def T_switch_in_loop_far(n):
    return "var s = 0; for (var i = 0; i < 4; i++) { switch (i % 2) { case 1: continue; default: " + "s += 1; " * n + "} } s", 2 * n


def T_try_in_loop_continue_far(n):
    return "var s = 0, i = 0; do { i++; try { if (i % 2) continue; " + "s += 1; " * n + "} finally { s += 0; } } while (i < 4); s", 2 * n


# one big function reached through every call path of the VM (the interpreter has more than one decode loop): jump operands beyond
# 32767 (the signed 16-bit edge) as well as beyond 255 must be read the same way on each path
_BIGFN = "function big(x) { var s = 0; if (x) { " + "%s" + "} else { s = -1; } for (var i = 0; i < 2; i++) { s += 0; } return s; }\n"
_PATHS = {"direct": "big(1) + big(0)", "map": "[1].map(big)[0] + [0].map(big)[0]", "forEach": "var t = 0; [1, 0].forEach(function (v) { t += big(v); }); t",
          "call": "big.call(null, 1) + big.apply(null, [0])", "bind": "big.bind(null, 1)() + big.bind(null, 0)()", "getter": "({get g() { return big(1); }}).g + ({get g() { return big(0); }}).g",
          "valueOf": "({valueOf: function () { return big(1); }}) * 1 + ({valueOf: function () { return big(0); }}) * 1", "sort": "var t = 0; [2, 1].sort(function (a, b) { t = big(1) + big(0); return a - b; }); t",
          "replace": "var t = 0; 'a'.replace('a', function () { t = big(1) + big(0); return ''; }); t", "eval": "(0, eval)('big(1) + big(0)')", "new": "function K() { this.v = big(1) + big(0); } new K().v",
          "nested-natives": "[1].map(function () { return [1].filter(function () { return true; }).map(big)[0] + big(0); })[0]", "reduce": "[1, 0].reduce(function (a, v) { return a + big(v); }, 0)"}


def _mk_path(path):
    def T(n):
        return _BIGFN % ("s += 1; " * n) + _PATHS[path], n - 1
    return T


for _pn in _PATHS:
    globals()["T_bigfn_via_" + _pn.replace("-", "_")] = _mk_path(_pn)


def T_nested_arrays(n):
    return "[" * n + "1" + "]" * n + ".length", 1


def T_nested_parens(n):
    return "(" * n + "7" + ")" * n, 7


def T_nested_calls(n):
    return "function id(x) { return x; } " + "id(" * n + "3" + ")" * n, 3


def T_nested_blocks_and_ifs(n):
    return "var s = 0; " + "if (1) { " * n + "s = 5;" + " }" * n + " s", 5


def T_nested_functions(n):
    return "(function () { return " * n + "9" + "; })()" * n, 9


def T_flat_sum_long(n):
    return "var a = 1; " + "+".join(["a"] * (n + 1)), n + 1


def T_flat_call_chain(n):
    return "function f() { return f; } f" + "()" * n + " === f", True


def _via(kind, inner):
    """The same nested source handed to eval() / new Function() by a tiny outer program: the nested compiler refuses (or runs) it
    exactly as the context's own eval does."""
    import json as _json

    def t(n):
        src, want = inner(n)
        if kind == "eval":
            return "eval(%s)" % _json.dumps(src), want
        return "new Function(%s)()" % _json.dumps("return " + src), want
    return t


def T_nested_unary(n):
    return "-" + " -" * (2 * n - 1) + "1", 1


def T_nested_object_literals(n):
    return "({a: " * n + "4" + "})" * n + ".a" * n, 4


for _nm in ("nested_parens", "nested_calls", "nested_blocks_and_ifs", "nested_functions", "nested_unary", "nested_object_literals", "flat_sum_long"):
    globals()["T_%s_via_eval" % _nm] = _via("eval", globals()["T_" + _nm])
    if _nm not in ("nested_calls", "nested_blocks_and_ifs", "flat_sum_long"):      # (those are statement lists, not one expression)
        globals()["T_%s_via_function" % _nm] = _via("function", globals()["T_" + _nm])

TEMPLATES = {k[2:]: v for k, v in list(globals().items()) if k.startswith("T_")}
# bytes of code per unit, used to place scales right at the 65535 jump boundary for each jump template
JUMPY = {"while", "for", "dowhile", "if_true", "if_false", "if_skip", "switch_bodies", "try", "and_chain", "or_chain",
         "loop_break_far", "loop_continue_far", "ternary_chain", "try_finally", "late_dowhile", "late_while",
         "late_loop_in_func", "dowhile_continue_far", "for_notest_continue_far", "labelled_continue_far", "labelled_continue_dowhile_far",
         "forin_continue_far", "forof_break_far", "switch_in_loop_far", "try_in_loop_continue_far"} | {"bigfn_via_" + p.replace("-", "_") for p in _PATHS}


# ---------------- worker side -----------------------------------------------------------------
_STATE = {"installed": False, "emit": 0, "patch": 0, "broken": []}


def _install():
    if _STATE["installed"]:
        return
    import icontract
    from vf import engine as E
    from microjs import compiler as C

    class ContractBroken(Exception):
        pass

    JUMPS = C.Compiler._JUMP_OPCODES

    def operand_encoded_exactly(self, opcode, result, arg=None):
        # postcondition on normal return: the bytes written encode arg exactly (no masking, no wrap)
        _STATE["emit"] += 1
        if arg is None:
            return True
        bc = self.bytecode
        if opcode in JUMPS:
            ok = len(bc) >= result + 3 and (bc[result + 1] | (bc[result + 2] << 8)) == arg
        else:
            ok = len(bc) >= result + 2 and bc[result + 1] == arg and 0 <= arg <= 255
        if not ok:
            _STATE["broken"].append(["_emit", getattr(opcode, "name", str(opcode)), arg])
        return True

    def jump_target_encoded_exactly(self, pos, target=None):
        _STATE["patch"] += 1
        t = len(self.bytecode) if target is None else target
        bc = self.bytecode
        if (bc[pos + 1] | (bc[pos + 2] << 8)) != t:
            _STATE["broken"].append(["_patch_jump", pos, t])
        return True
    C.Compiler._emit = icontract.ensure(operand_encoded_exactly, error=ContractBroken)(C.Compiler._emit)
    C.Compiler._patch_jump = icontract.ensure(jump_target_encoded_exactly, error=ContractBroken)(C.Compiler._patch_jump)
    _STATE["installed"] = True


_BOUND = {}


def _boundaries(func):
    from microjs.opcodes import OpCode
    key = id(func)
    if key in _BOUND:
        return _BOUND[key][1]
    bc = func.bytecode
    two = {OpCode.JUMP, OpCode.JUMP_IF_FALSE, OpCode.JUMP_IF_TRUE, OpCode.TRY_START}
    one = {OpCode.LOAD_CONST, OpCode.LOAD_NAME, OpCode.STORE_NAME, OpCode.LOAD_LOCAL, OpCode.STORE_LOCAL,
           OpCode.LOAD_CLOSURE, OpCode.STORE_CLOSURE, OpCode.LOAD_CELL, OpCode.STORE_CELL, OpCode.CALL,
           OpCode.CALL_METHOD, OpCode.NEW, OpCode.BUILD_ARRAY, OpCode.BUILD_OBJECT, OpCode.BUILD_REGEX,
           OpCode.MAKE_CLOSURE, OpCode.TYPEOF_NAME}
    b = set()
    i = 0
    n = len(bc)
    bad = None
    while i < n:
        b.add(i)
        try:
            op = OpCode(bc[i])
        except ValueError:
            bad = i
            break
        i += 3 if op in two else (2 if op in one else 1)
    b.add(n)
    _BOUND[key] = (func, (b, bad))   # keep func alive so id() is not reused
    return b, bad


def w_case(case, opts):
    from vf import engine as E
    _install()
    _STATE["broken"].clear()
    e0, p0 = _STATE["emit"], _STATE["patch"]
    st = {"decode": None, "steps": 0}

    def mon(vm):
        if not vm.call_stack:
            return
        fr = vm.call_stack[-1]
        b, bad = _boundaries(fr.func)
        st["steps"] += 1
        if bad is not None and st["decode"] is None:
            st["decode"] = ["undecodable-bytecode", fr.func.name, bad]
            raise E.VerifAbort("decode")
        if fr.ip not in b and st["decode"] is None:
            st["decode"] = ["ip-not-on-instruction-boundary", fr.func.name, fr.ip, len(fr.func.bytecode)]
            raise E.VerifAbort("decode")
    rec = E.run_js(case["src"], {"max_steps": 3_000_000, "_vm_mons": [mon], "log": False, "tl": None})
    rec["decode"] = st["decode"]
    rec["emit_checks"] = _STATE["emit"] - e0
    rec["patch_checks"] = _STATE["patch"] - p0
    rec["contract_broken"] = list(_STATE["broken"])[:5]
    _BOUND.clear()
    return rec


def decode_num(r):
    import struct
    if r and r[0] == "d" and r[1] != "nan":
        return struct.unpack(">d", bytes.fromhex(r[1]))[0]
    if r and r[0] == "b":
        return r[1]
    return None


def main(ctx):
    rng = random.Random(ctx.seed)
    scales = SCALES_Q if ctx.quick else SCALES_T
    cases = []
    for name, fn in sorted(TEMPLATES.items()):
        ns = list(scales)
        if name in JUMPY:
            # units are ~10 bytes each (s += 1;) or ~6 (chains): cross 65535 for this template in quick as well
            ns += [6552, 6553, 6554, 6560, 7000] if name not in ("and_chain", "or_chain", "ternary_chain") else [9362, 9363, 10922, 10923, 13107, 16384]
            if name.startswith("bigfn_via_"):
                ns += [3270, 3275, 3276, 3277, 3280, 3300, 4000, 6000]     # around bytecode offset 32768
        if name.startswith("long_line_"):
            ns = [16, 1600] + [16 * c + p_ for c in (5953, 5954, 5955, 5956, 5957) for p_ in range(16)] + [16 * 7000, 16 * 12000 + 3]    # paren distances 65499 .. 65558: every column offset around 65536
        if name.startswith("pools_"):
            ns = [1, 2, 30, 60, 62, 63, 64, 65, 66, 70, 100, 127, 128, 129, 200, 250, 253, 254, 255, 256, 300]     # pool sizes (three pools per program)
        if name.startswith("lit_"):
            ns += [15, 16, 17, 18, 19, 20, 21, 22, 25, 26, 53, 54, 308, 309, 310, 323, 324, 325, 400, 1074, 1075, 4299, 4300, 4301, 5000, 10000, 70000]   # double / host integer-conversion boundaries
        ns += [rng.randint(2, 300), rng.randint(300, 5000)]
        if not ctx.quick:
            ns += [rng.randint(5000, 80000) for _ in range(3)]
        for n in sorted(set(ns)):
            if name in ("captured", "params", "locals", "globals", "functions", "object", "switch_cases", "num_consts",
                        "str_consts", "array_distinct") and n > 5000:
                continue   # refused at 256 anyway; beyond this only parse time grows
            src, want = fn(n)
            cases.append({"id": h([name, n]), "tmpl": name, "n": n, "src": src, "want": want})
    ep = engine_pool()
    try:
        res = ep.map({"mod": "checks.C14", "fn": "w_case"}, cases, batch=4, timeout=900, single_timeout=600)
    finally:
        ep.close()
    emit = patch = 0
    refused = ran = 0
    by_t = {}
    for c, r in zip(cases, res):
        ctx.count()
        t = by_t.setdefault(c["tmpl"], {"ran": 0, "refused": 0, "max_ok_n": 0, "min_refused_n": None})
        if r is None or "_fail" in r or "_exc" in r:
            ctx.violation(("no-result", c["tmpl"]), {"case": {k: c[k] for k in c if k != "src"}, "detail": r})
            continue
        emit += r.get("emit_checks", 0)
        patch += r.get("patch_checks", 0)
        prob = None
        if r.get("contract_broken"):
            prob = "encoding-contract-broken:" + str(r["contract_broken"][0])
        elif r.get("decode"):
            prob = "decode:" + str(r["decode"])
        elif r["out"] == "ok":
            got = decode_num(r.get("ret"))
            if got != c["want"]:
                prob = "wrong-result: got %r want %r" % (got if got is not None else r.get("ret"), c["want"])
            else:
                ran += 1
                t["ran"] += 1
                t["max_ok_n"] = max(t["max_ok_n"], c["n"])
                ctx.nontrivial(c["id"])
        elif r["out"] == "jserr" and r["err"].get("cls") in ("JSError", "JSSyntaxError") and REFUSAL.search(r["err"].get("msg", "")) \
                and r["vm_steps"] <= (12 if "_via_" in c["tmpl"] and not c["tmpl"].startswith("bigfn_via_") else 0):    # (the outer `eval(<text>)` itself)
            refused += 1
            t["refused"] += 1
            t["min_refused_n"] = c["n"] if t["min_refused_n"] is None else min(t["min_refused_n"], c["n"])
            ctx.nontrivial(c["id"])
        elif r["out"] == "jserr" and r["err"].get("cls") == "JSSyntaxError" and c["tmpl"] == "nested_arrays":
            refused += 1
        else:
            prob = "bad-outcome:%s:%s:%s" % (r["out"], (r.get("err") or {}).get("cls"), str((r.get("err") or {}).get("msg"))[:80])
        if prob is None:
            continue
        if ctx.known_cell(c["id"], h(prob.split(":")[0], 10)):
            continue
        ctx.violation((prob.split(":")[0], c["tmpl"]), {"case": {k: c[k] for k in c if k != "src"}, "src_head": c["src"][:200],
                                                        "problem": prob, "monitor": "closed form / contracts / decode monitor"})
    if emit == 0 or patch == 0:
        ctx.inconclusive_because("encoding contracts were never evaluated (emit=%d patch=%d)" % (emit, patch))
    if ran == 0 or refused == 0:
        ctx.inconclusive_because("workload did not produce both executed and refused programs (ran=%d refused=%d)" % (ran, refused))
    ctx.cov["rule"] = ("shape templates x scale n swept across the operand (255/256) and jump (65535/65536) boundaries with a "
                       "closed-form expected result; non-trivial = executed with the right result or refused up front")
    ctx.cov["templates"] = sorted(TEMPLATES)
    ctx.cov["scales"] = scales
    ctx.cov["executed_correctly"] = ran
    ctx.cov["refused_up_front"] = refused
    ctx.cov["per_template"] = by_t
    ctx.cov["emit_contract_evaluations"] = emit
    ctx.cov["patch_jump_contract_evaluations"] = patch
    for c in (cases[0], cases[len(cases) // 2]):
        ctx.sample({"tmpl": c["tmpl"], "n": c["n"], "want": c["want"], "src_head": c["src"][:160]})
    ctx.assumptions += ["contracts wrap Compiler._emit/_patch_jump as class attributes before any compilation in the worker"]
