"""C15 — evaluation is deterministic and independent of host hash randomisation.

Worker processes started with PYTHONHASHSEED = 0..N-1 evaluate the same program list and return digests of
(typed outcome, log); the parent compares.  Exercise evidence: each worker also returns a fingerprint of
every compiled function's locals/free_vars/cell_vars order; the check is INCONCLUSIVE unless at least one
program had two distinct slot layouts across seeds (otherwise the seed dimension was not exercised).
In-process: shuffled evaluation orders, polluter programs on other contexts, two virtual clock origins.
"""
import glob
import os
import random

from vf import progen
from vf.common import REPO, h
from vf.runner import engine_pool


def corpus():
    out = []
    for pat in ("tests/basic/*.js", "tests/compat/*.js"):
        for f in sorted(glob.glob(str(REPO / pat))):
            try:
                src = open(f).read()
            except OSError:
                continue
            if "Date.now" in src or "Math.random" in src:
                continue
            out.append((os.path.basename(f), src))
    return out


# ---------------- worker side ----------------------------------------------------------------
def _layouts(src):
    from vf import engine as E
    from microjs.parser import Parser
    from microjs.compiler import Compiler, CompiledFunction
    out = []
    try:
        top = Compiler().compile(Parser(src).parse())
    except Exception as e:
        return ["compile-error", type(e).__name__]
    seen = set()

    def walk(cf):
        if id(cf) in seen:
            return
        seen.add(id(cf))
        out.append([cf.name, list(cf.locals), list(cf.free_vars), list(cf.cell_vars)])
        for c in cf.constants:
            if isinstance(c, CompiledFunction):
                walk(c)
    walk(top)
    return out


def w_digest(case, opts):
    """case = {progs:[src...], order:[idx...], clock_base, pollute}: evaluate in the given order, fresh context each."""
    from vf import engine as E
    from vf import diff
    res = {}
    if case.get("pollute"):
        for p in POLLUTERS:
            E.run_js(p, {"max_steps": 200000, "log": False})
    for i in case["order"]:
        src = case["progs"][i]
        rec = E.run_js(src, {"max_steps": opts.get("max_steps", 3_000_000), "clock_base": case.get("clock_base", 1000.0),
                             "max_log": 5000})
        res[str(i)] = h(diff.full_key(rec), 16)
    out = {"digests": res, "hashseed": os.environ.get("PYTHONHASHSEED")}
    if case.get("layouts"):
        out["layouts"] = {str(i): h(_layouts(case["progs"][i]), 12) for i in case["order"]}
    return out


POLLUTERS = [
    "var o = {}; for (var i = 0; i < 50; i++) { o['k' + i] = i; } Object.keys(o).length;",
    "Object.prototype.zzz = 1; Array.prototype.qqq = 2; Math.PI = 3; JSON.parse = null; 1;",
    "try { null.x; } catch (e) {} try { undefinedFn(); } catch (e2) {} /(a+)+b/.test('aaaaaaaaaaaaaaaaaaaaaa'); 1;",
    "var f = function(){ return function(){ return arguments; }; }; f()(1,2,3).length;",
    "(((",
    "var s = ''; for (var j = 0; j < 200; j++) { s += String.fromCharCode(65 + j % 26); } s.split('').sort().join('');",
]


def main(ctx):
    rng = random.Random(ctx.seed)
    fixed = random.Random(4242)
    progs = []
    nfix, nrnd = (120, 120) if ctx.quick else (1500, 3000)
    for _ in range(nfix):
        progs.append(progen.closure_heavy(fixed))
    for _ in range(nrnd):
        progs.append(progen.closure_heavy(rng))
    for _ in range(60 if ctx.quick else 600):
        progs.append(progen.random_program(rng))
    corp = corpus()
    progs += [s for _, s in corp]
    nseeds = 16 if ctx.quick else 48
    order = list(range(len(progs)))
    pools = []
    results = {}
    import threading

    def run_seed(s):
        ep = engine_pool(n=1, env_extra={"PYTHONHASHSEED": str(s)})
        try:
            r = ep.map({"mod": "checks.C15", "fn": "w_digest", "opts": {}},
                       [{"progs": progs, "order": order, "layouts": True}], batch=1, timeout=1200)[0]
        finally:
            ep.close()
        results[s] = r
    ths = [threading.Thread(target=run_seed, args=(s,)) for s in range(nseeds)]
    # at most 16 at a time
    for i in range(0, len(ths), 16):
        for t in ths[i:i + 16]:
            t.start()
        for t in ths[i:i + 16]:
            t.join()
    # in-process variations under one seed: shuffled orders, polluted process, other clock origin, repeat
    variants = []
    for k in range(5):
        o = list(order)
        random.Random(k + 1).shuffle(o)
        variants.append({"progs": progs, "order": o})
    variants.append({"progs": progs, "order": order, "pollute": True})
    variants.append({"progs": progs, "order": order, "clock_base": 1.0e9})
    variants.append({"progs": progs, "order": order})
    ep = engine_pool(n=8, env_extra={"PYTHONHASHSEED": "0"})
    try:
        vres = ep.map({"mod": "checks.C15", "fn": "w_digest", "opts": {}}, variants, batch=1, timeout=1200)
    finally:
        ep.close()
    ref = results.get(0)
    if not ref or "digests" not in ref:
        ctx.inconclusive_because("seed-0 worker failed: %r" % (ref,))
        return
    layouts_varied = 0
    for i in order:
        ctx.count()
        k = str(i)
        ls = {results[s]["layouts"][k] for s in results if results[s] and "layouts" in results[s]}
        if len(ls) >= 2:
            layouts_varied += 1
            ctx.nontrivial(h(progs[i]))
        ds = {}
        for s in sorted(results):
            r = results[s]
            if not r or "digests" not in r:
                ctx.inconclusive_because("worker for hash seed %d failed: %r" % (s, r))
                continue
            ds.setdefault(r["digests"][k], []).append(s)
        if len(ds) > 1:
            ctx.violation(("hash-seed", h(progs[i])), {"case": progs[i], "digest_by_seeds": ds,
                                                        "monitor": "same source, different PYTHONHASHSEED"})
        for vi, vr in enumerate(vres):
            if not vr or "digests" not in vr:
                ctx.inconclusive_because("variant worker %d failed: %r" % (vi, vr))
                continue
            if vr["digests"][k] != ref["digests"][k]:
                what = ["shuffle"] * 5 + ["after-polluters", "clock-origin", "repeat"]
                ctx.violation(("in-process:" + what[vi], h(progs[i])), {"case": progs[i], "variant": what[vi],
                                                                         "monitor": "same seed, different batch order/history/clock"})
    if layouts_varied == 0:
        ctx.inconclusive_because("no program showed two slot layouts across hash seeds: seed dimension not exercised")
    ctx.cov["rule"] = ("closure-heavy generated programs + random programs + corpus scripts, each evaluated on a fresh context "
                       "under %d hash seeds (separate processes) and 8 in-process variations; non-trivial = the compiled "
                       "slot layout (locals/free_vars/cell_vars order) differed between at least two seeds" % nseeds)
    ctx.cov["programs"] = len(progs)
    ctx.cov["corpus_scripts"] = [n for n, _ in corp]
    ctx.cov["hash_seeds"] = nseeds
    ctx.cov["programs_with_varying_layout"] = layouts_varied
    ctx.cov["process_runs"] = nseeds + len(variants)
    ctx.sample(progs[0][:1200])
    ctx.sample(progs[nfix + 3][:600])
    ctx.assumptions += ["Math.random/Date.now users are excluded", "digest = hash of typed outcome + ordered log"]
