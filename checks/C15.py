"""C15 — evaluation is deterministic and independent of host hash randomisation.

Worker processes started with PYTHONHASHSEED = 0..N-1 evaluate the same program list and return digests of
(typed outcome, log); the parent compares.  Exercise evidence: each worker also returns a fingerprint of
every compiled function's locals/free_vars/cell_vars order; the check is INCONCLUSIVE unless at least one
program had two distinct slot layouts across seeds (otherwise the seed dimension was not exercised).
In-process: shuffled evaluation orders, polluter programs on other contexts, two virtual clock origins.
"""
import glob
import os
import json
import random

from vf import progen
from vf.common import REPO, h
from vf.runner import engine_pool


def corpus():
    out = []
    for pat in ("tests/basic/*.js", "tests/compat/*.js"):
        for f in sorted(glob.glob(str(REPO / pat))):
            try:
                src = open(f).read()
            except OSError:
                continue
            if "Date.now" in src or "Math.random" in src:
                continue
            out.append((os.path.basename(f), src))
    return out


# ---------------- worker side ----------------------------------------------------------------
def _layouts(src):
    from vf import engine as E
    from microjs.parser import Parser
    from microjs.compiler import Compiler, CompiledFunction
    out = []
    try:
        top = Compiler().compile(Parser(src).parse())
    except Exception as e:
        return ["compile-error", type(e).__name__]
    seen = set()

    def walk(cf):
        if id(cf) in seen:
            return
        seen.add(id(cf))
        out.append([cf.name, list(cf.locals), list(cf.free_vars), list(cf.cell_vars)])
        for c in cf.constants:
            if isinstance(c, CompiledFunction):
                walk(c)
    walk(top)
    return out


def w_digest(case, opts):
    """case = {progs:[src...], order:[idx...], clock_base, pollute}: evaluate in the given order, fresh context each."""
    from vf import engine as E
    from vf import diff
    res = {}
    if case.get("pollute"):
        for p in POLLUTERS:
            E.run_js(p, {"max_steps": 200000, "log": False})
    for i in case["order"]:
        src = case["progs"][i]
        rec = E.run_js(src, {"max_steps": opts.get("max_steps", 3_000_000), "clock_base": case.get("clock_base", 1000.0),
                             "max_log": 5000})
        # (the message of an engine error is part of what the embedder observes: "operand 257 exceeds ..." must not vary either)
        res[str(i)] = h([diff.full_key(rec), (rec.get("err") or {}).get("msg"), rec.get("abort")], 16)
    out = {"digests": res, "hashseed": os.environ.get("PYTHONHASHSEED"), "str_hash": hash("microjs-hash-probe") & 0xFFFFFFFF}
    if case.get("layouts"):
        out["layouts"] = {str(i): h(_layouts(case["progs"][i]), 12) for i in case["order"]}
    return out


GLOBAL_NAMES = ["Math", "JSON", "Object", "Array", "String", "Number", "Boolean", "RegExp", "Error", "TypeError", "RangeError", "SyntaxError", "ReferenceError", "Function", "Date", "console",
                "Int8Array", "Uint8Array", "Int32Array", "Float64Array", "ArrayBuffer", "parseInt", "parseFloat", "isNaN", "isFinite", "eval"]
# what a fresh context shows of each built-in (own keys, a few values, prototype keys): must not depend on what other contexts of the process did
FINGERPRINTS = ["(function () { var G = typeof %s === 'undefined' ? undefined : %s; if (G === undefined || G === null) { return 'absent'; } var p = G.prototype; "
                "return [typeof G, Object.keys(G).sort().join(), G.polluted, typeof G.extraFn, p ? Object.keys(p).sort().join() : 'noproto', p ? p.polluted : 0, String(G.PI), typeof G.max, typeof G.parse, typeof G.keys, "
                "typeof G.isArray, typeof G.fromCharCode, G.length, G.name]; })()" % (g, g) for g in GLOBAL_NAMES]
POLLUTERS = [
    "var o = {}; for (var i = 0; i < 50; i++) { o['k' + i] = i; } Object.keys(o).length;",
    "Object.prototype.zzz = 1; Array.prototype.qqq = 2; Math.PI = 3; JSON.parse = null; 1;",
    "try { null.x; } catch (e) {} try { undefinedFn(); } catch (e2) {} /(a+)+b/.test('aaaaaaaaaaaaaaaaaaaaaa'); 1;",
    "var f = function(){ return function(){ return arguments; }; }; f()(1,2,3).length;",
    "(((",
    "var NAMES = %s; for (var i = 0; i < NAMES.length; i++) { try { var G = (0, eval)(NAMES[i]); G.polluted = 'P' + i; G.extraFn = function () {}; if (G.prototype) { G.prototype.polluted = i; } "
    "G.PI = 3; G.max = null; G.parse = 1; G.keys = 2; G.isArray = 3; G.fromCharCode = 4; delete G.min; delete G.stringify; } catch (e) {} } 1;" % json.dumps(GLOBAL_NAMES),
    "Math.random = function () { return 0.5; }; Math.clamp = function (x) { return x; }; parseInt = function () { return -1; }; undefined = 1; NaN = 2; Infinity = 3; 1;",
    "var s = ''; for (var j = 0; j < 200; j++) { s += String.fromCharCode(65 + j % 26); } s.split('').sort().join('');",
    # operations that fail half-way through a traversal or a search because a resource runs out (caught and uncaught): whatever
    # process-wide bookkeeping they keep must not outlive them
    "var top = [7]; for (var di = 0; di < 3000; di++) { top = [top]; } try { String(top); } catch (e) { } try { top.join('-'); } catch (e2) { } var held = []; for (var q = 0; q < 600; q++) { held.push([q]); } 1;",
    "var deep = [1]; for (var dk = 0; dk < 3000; dk++) { deep = [deep, 2]; } deep + '';",
    "var dob = {v: 1}; for (var dn = 0; dn < 3000; dn++) { dob = {k: dob}; } try { JSON.stringify(dob); } catch (e) { } var cyc = {}; cyc.self = cyc; try { JSON.stringify(cyc); } catch (e3) { } 1;",
    # source nested deeper than the front end accepts (whatever a context does about that must not change what later contexts accept)
    "var x = " + "{a: " * 400 + "1" + "}" * 400 + ";",
    "(" * 600 + "1" + ")" * 600,
    "[" * 500 + "]" * 500 + ".length",
    "function drec(n) { return drec(n + 1) + 1; } try { drec(0); } catch (e) { } try { [1].map(function f() { return [2].map(f); }); } catch (e4) { } 1;",
    "var t = ''; for (var dp = 0; dp < 3000; dp++) { t += '['; } try { JSON.parse(t); } catch (e) { } try { (0, eval)(t); } catch (e5) { } try { new RegExp(t.replace(/\\[/g, '(')); } catch (e6) { } 1;",
]


NAME_POOLS = [list("ABCDEFGH"), list("abcdefgh"), ["alpha", "beta", "gamma", "delta", "eps", "zeta", "eta", "theta"], ["x1", "x2", "x3", "x4", "x5", "x6", "x7", "x8"],
              ["count", "total", "index", "value", "result", "item", "key", "tmp"], ["a_", "b$", "_c", "$d", "e9", "f_f", "gG", "hh"]]


def pass_through(rng):
    """k variables of the outermost function reach the innermost one through 1-3 intermediate functions that have no captured
    locals of their own; every level mentions the variables in its own order (slots must be resolved by name, not by position
    in whatever order a set happened to iterate)."""
    names = rng.sample(rng.choice(NAME_POOLS), rng.randint(2, 6))
    depth = rng.randint(1, 3)

    def mention(level):
        order = names[:]
        rng.shuffle(order)
        k = rng.random()
        if k < 0.4:
            return "if (false) { " + "; ".join(order) + "; }"
        if k < 0.7:
            return "var unused%d = [%s].length;" % (level, ", ".join(order))
        return ""

    def kind_wrap(level, inner_body):
        k = rng.random()
        if k < 0.4:
            return "return function lvl%d() { %s };" % (level, inner_body)
        if k < 0.7:
            return "function lvl%d() { %s } return lvl%d;" % (level, inner_body, level)
        return "return () => { %s };" % inner_body
    order = names[:]
    rng.shuffle(order)
    w = rng.choice(names)
    innermost = "%s = %s + '!'; return [%s].join('');" % (w, w, ", ".join(names)) if rng.random() < 0.6 else "return [%s].join('') + [%s].join('');" % (", ".join(order), ", ".join(names))
    body = mention(depth + 1) + " " + innermost
    for level in range(depth, 0, -1):
        body = mention(level) + " " + kind_wrap(level, body)
    decl = "var " + ", ".join("%s = '%s'" % (n, n.upper()[:2] + str(i)) for i, n in enumerate(names)) + ";"
    call = "outer()" + "()" * depth
    return "function outer() { %s %s }\nlog(%s); log(%s);\n'done'" % (decl, body, call, call)


def key_order_program(rng):
    """Objects with many string keys built and rebuilt by every mechanism that touches the key tables (literal, assignment, delete and
    re-add, accessors by literal and defineProperty, accessor <-> data conversion, assign, create with a property map, JSON.parse,
    defineProperties), then every enumeration of them: any order taken from a host set or dict of strings varies with the hash seed."""
    pool = rng.choice(NAME_POOLS + [["alpha", "beta", "gamma", "delta", "epsilon", "zeta", "eta", "theta", "iota", "kappa", "lambda", "mu"]])
    keys = rng.sample(pool, min(len(pool), rng.randint(4, 8)))
    lines = ["var o = {%s};" % ", ".join("%s: %d" % (k, i) for i, k in enumerate(keys[:3]))]
    for i, k in enumerate(keys[3:]):
        lines.append("o.%s = %d;" % (k, i + 3))
    ops = ["delete o.K; o.K = 'again';", "Object.defineProperty(o, 'K', {get: function () { return 'g'; }, enumerable: true, configurable: true});",
           "Object.defineProperty(o, 'K', {value: 'data', writable: true, enumerable: true, configurable: true});", "Object.assign(o, {K: 'as', extra: 1});", "delete o.K;",
           "Object.defineProperties(o, {K: {value: 'dps', writable: true, enumerable: true, configurable: true}, K2: {value: 'dps2', writable: true, enumerable: true, configurable: true}});",
           "o = Object.assign({}, o);", "o = JSON.parse(JSON.stringify(o));", "o = Object.create(Object.prototype, {K: {value: 1, enumerable: true, writable: true, configurable: true}, K2: {get: function () { return 2; }, enumerable: true, configurable: true}});",
           "var o2 = {get K() { return 1; }, set K(v) { }, K2: 2}; Object.defineProperty(o2, 'K', {value: 'was-accessor', writable: true, enumerable: true, configurable: true}); log(Object.keys(o2), JSON.stringify(o2));",
           "Object.defineProperty(o, 'K', {get: function () { return 1; }, enumerable: true, configurable: true}); Object.defineProperty(o, 'K2', {get: function () { return 2; }, set: function (v) { }, enumerable: true, configurable: true}); "
           "Object.defineProperty(o, 'K', {value: 'conv', writable: true, enumerable: true, configurable: true});",
           "Object.defineProperty(o, 'K', {set: function (v) { }, enumerable: true, configurable: true}); Object.defineProperty(o, 'K2', {value: 'conv2', writable: true, enumerable: true, configurable: true});",
           "o = Object.fromEntries ? Object.fromEntries(Object.entries(o)) : o;", "for (var q in o) { if (q === 'K') { delete o[q]; } }", "o.K = {K2: 1, K: 2};"]
    for _ in range(rng.randint(2, 6)):
        op = rng.choice(ops)
        lines.append("try { " + op.replace("K2", rng.choice(keys)).replace("K", rng.choice(keys)) + " } catch (e) { log('threw', e.name); }")
        if rng.random() < 0.4:
            lines.append("log(Object.keys(o));")
    lines.append("var fi = []; for (var k in o) { fi.push(k); } log(Object.keys(o), fi, JSON.stringify(o), Object.values(o).length, Object.entries(o).map(function (e) { return e[0]; }), Object.keys(Object.assign({}, o)));")
    lines.append("o;")
    return "\n".join(lines)


def main(ctx):
    rng = random.Random(ctx.seed)
    fixed = random.Random(4242)
    progs = []
    for i in range(150 if ctx.quick else 3000):
        progs.append(key_order_program(fixed if i % 2 == 0 else rng))
    for i in range(12 if ctx.quick else 120):
        r_ = fixed if i % 2 == 0 else rng
        n_ = r_.randint(200, 900)
        progs.append("var out = []; for (var i = 0; i < %d; i++) { var a = [i, [i %% 7, 'x'], i * 2]; out.push(a.join('-') + '|' + String([a, a]) + '|' + ([a] + '').length); } "
                     "var bad = 0; for (var j = 0; j < out.length; j++) { if (out[j].indexOf(j + '-') !== 0) { bad++; } } log(bad, out.length, out[%d]); 'done'" % (n_, r_.randint(0, 150)))
    # the text of every error message the engine composes about a value (it must describe the value, not the host object that
    # represents it: those texts carry memory addresses and dict orders that differ from process to process)
    bad_ops = ["Math()", "new Math.floor()", "JSON()", "new JSON()", "({})()", "[1, 2]()", "(function () {}).x()", "new ({a: 1})()", "new (function () { }.bind())().y()", "Math.max.nosuch()", "new Math.max()", "new parseInt('1')",
               "[1].map({})", "[1].forEach([2])", "[3, 1].sort({})", "'a'.replace('a', {})()", "new Array({})", "new Int8Array({})", "new Int8Array(-1)", "new ArrayBuffer(-5)", "({}) instanceof ({})", "1 in ({}).x", "({}).x.y",
               "Object.defineProperty(1, 'a', {})", "Object.setPrototypeOf(null, {})", "Object.create(5)", "new RegExp({toString: function () { return '('; }})", "(5).toFixed({})", "'a'.repeat({})", "console.nosuch()", "console()",
               "Date()()", "new Date().nosuch()", "Error()()", "new Error('m')()", "/re/()", "new /re/()", "Object.keys()()", "Symbol && Symbol()()", "arguments", "new (Math.abs.bind(null))()", "null.x", "undefined.y", "(void 0).z = 1",
               "[].reduce(function () {})", "new Function('(')", "eval('1 +')", "JSON.parse('{')", "JSON.stringify((function () { var c = {}; c.c = c; return c; })())", "x_not_declared", "x_not_declared = 1", "'x'.nosuch()", "(1).nosuch()"]
    progs.append("var out = []; var OPS = %s; for (var i = 0; i < OPS.length; i++) { try { (0, eval)(OPS[i]); out.push('ok'); } catch (e) { out.push(String(e && e.name) + ': ' + String(e && e.message)); } } log(out); 'done'" % json.dumps(bad_ops))
    for op in bad_ops:
        progs.append("var m; try { %s; m = 'no error'; } catch (e) { m = [e && e.name, e && e.message, String(e)]; } log(m); %s" % (op, op))
    # programs whose outcome sits at a depth threshold of the engine (conversions of nested data, nested source): the threshold is a
    # property of the engine, not of what ran before in the process
    for depth in (150, 300, 400, 600, 900, 1000, 1500, 3000):
        progs.append("var a = [1]; for (var i = 0; i < %d; i++) { a = [a]; } var r; try { r = 'ok:' + String(a).length; } catch (e) { r = e.name + ':' + e.message; } log(r); 'done'" % depth)
        progs.append("var a = [1]; for (var i = 0; i < %d; i++) { a = [a]; } var r; try { r = 'ok:' + JSON.stringify(a).length; } catch (e) { r = e.name + ':' + e.message; } log(r); 'done'" % depth)
        progs.append("var o = {v: 1}; for (var i = 0; i < %d; i++) { o = {k: o}; } var r; try { r = 'ok:' + JSON.stringify(o).length; } catch (e) { r = e.name + ':' + e.message; } log(r); 'done'" % depth)
        progs.append("var t = ''; for (var i = 0; i < %d; i++) { t += '['; } for (var j = 0; j < %d; j++) { t += ']'; } var r; try { r = 'ok:' + JSON.parse(t).length; } catch (e) { r = e.name; } log(r); 'done'" % (depth, depth))
        progs.append("var t = ''; for (var i = 0; i < %d; i++) { t += '('; } t += '1'; for (var j = 0; j < %d; j++) { t += ')'; } var r; try { r = 'ok:' + (0, eval)(t); } catch (e) { r = e.name + ':' + String(e.message).slice(0, 40); } log(r); 'done'" % (depth, depth))
        progs.append("var a = [1]; for (var i = 0; i < %d; i++) { a = [a]; } a;" % depth)
    from checks import C08 as _c08
    for i in range(40 if ctx.quick else 600):
        progs.append(_c08.history(fixed if i % 2 == 0 else rng, 10, avoid=("fn-receiver",)))
    for i in range(150 if ctx.quick else 2000):
        progs.append(pass_through(fixed if i % 2 == 0 else rng))
    # one small program per key / operand spelling: values that are equal for the host (True == 1 == 1.0, False == 0 == -0.0, '1' vs 1)
    # but distinct in JavaScript - anything memoised per process under a host-equality key shows up as a dependence on what ran before
    KEYS = ["true", "false", "0", "1", "-0", "1.0", "'0'", "'1'", "'true'", "null", "undefined", "NaN", "0.5", "'0.5'", "2 > 1", "1 > 2", "[1]", "'01'", "1e0", "!0", "!1", "+true", "1 * 1", "'1' * 1"]
    for k in KEYS:
        progs.append("var o = {true: 'T', false: 'F', 0: 'zero', 1: 'one', 'null': 'N', 'undefined': 'U', 'NaN': 'nan', '0.5': 'half', '01': 'oct'}; var a = [10, 20]; "
                     "log(o[%s], a[%s], typeof (%s), String(%s), (%s) + '', [%s].join(), JSON.stringify(%s), (%s) === 1, (%s) == 1, 1 / (%s)); 'done'" % ((k,) * 10))
        progs.append("var m = {}; m[%s] = 'set'; log(Object.keys(m), m[%s]); var s = 'ab'; log(s[%s], s.charAt(%s), [5, 6].indexOf(%s), Math.max(%s, 0), (%s) | 0); 'done'" % ((k,) * 7))
    progs += FINGERPRINTS + ["[Math.PI, typeof Math.clamp, Math.max(1, 2), typeof Math.random, parseInt('12'), typeof undefined, NaN !== NaN, Infinity > 1e308, JSON.stringify({a: [1]}), [3, 1].sort().join()].join('|')"]
    # refusals at the size limits: which operand is reported must not depend on set iteration order either
    for n in (250, 257, 300):
        names = ["v%d" % i for i in range(n)]
        progs.append("(function () { var " + ", ".join("%s = %d" % (v, i) for i, v in enumerate(names)) + "; return " + names[-1] + "; })()")
        progs.append("(function () { var " + ", ".join("%s = %d" % (v, i) for i, v in enumerate(names)) + "; return function () { return " + " + ".join(names) + "; }; })()()")
        progs.append("(function (" + ", ".join(names) + ") { return " + names[-1] + "; })(1)")
        progs.append("function mk() { var " + ", ".join("%s = %d" % (v, i) for i, v in enumerate(names[:120])) + "; return function () { return function () { return " + " + ".join(reversed(names[:120])) + "; }; }; } log(mk()()()); 'done'")
    nfix, nrnd = (120, 120) if ctx.quick else (1500, 3000)
    for _ in range(nfix):
        progs.append(progen.closure_heavy(fixed))
    for _ in range(nrnd):
        progs.append(progen.closure_heavy(rng))
    for _ in range(60 if ctx.quick else 600):
        progs.append(progen.random_program(rng))
    corp = corpus()
    progs += [s for _, s in corp]
    nseeds = 16 if ctx.quick else 48
    order = list(range(len(progs)))
    pools = []
    results = {}
    import threading

    def run_seed(s):
        ep = engine_pool(n=1, env_extra={"PYTHONHASHSEED": str(s)})
        try:
            r = ep.map({"mod": "checks.C15", "fn": "w_digest", "opts": {}},
                       [{"progs": progs, "order": order, "layouts": True}], batch=1, timeout=1200)[0]
        finally:
            ep.close()
        results[s] = r
    ths = [threading.Thread(target=run_seed, args=(s,)) for s in range(nseeds)]
    # at most 16 at a time
    for i in range(0, len(ths), 16):
        for t in ths[i:i + 16]:
            t.start()
        for t in ths[i:i + 16]:
            t.join()
    # in-process variations under one seed: shuffled orders, polluted process, other clock origin, repeat
    variants = []
    for k in range(5):
        o = list(order)
        random.Random(k + 1).shuffle(o)
        variants.append({"progs": progs, "order": o})
    variants.append({"progs": progs, "order": order, "pollute": True})
    variants.append({"progs": progs, "order": order, "clock_base": 1.0e9})
    variants.append({"progs": progs, "order": order})
    ep = engine_pool(n=8, env_extra={"PYTHONHASHSEED": "0"})
    try:
        vres = ep.map({"mod": "checks.C15", "fn": "w_digest", "opts": {}}, variants, batch=1, timeout=1200)
    finally:
        ep.close()
    ref = results.get(0)
    if not ref or "digests" not in ref:
        ctx.inconclusive_because("seed-0 worker failed: %r" % (ref,))
        return
    layouts_varied = 0
    for i in order:
        ctx.count()
        k = str(i)
        ls = {results[s]["layouts"][k] for s in results if results[s] and "layouts" in results[s]}
        if len(ls) >= 2:
            layouts_varied += 1
        ds = {}
        for s in sorted(results):
            r = results[s]
            if not r or "digests" not in r:
                ctx.inconclusive_because("worker for hash seed %d failed: %r" % (s, r))
                continue
            ds.setdefault(r["digests"][k], []).append(s)
        if len(ds) == 1 and sum(len(v) for v in ds.values()) >= 2:
            ctx.nontrivial(h(progs[i]))
        if len(ds) > 1:
            ctx.violation(("hash-seed", h(progs[i])), {"case": progs[i], "digest_by_seeds": ds,
                                                        "monitor": "same source, different PYTHONHASHSEED"})
        for vi, vr in enumerate(vres):
            if not vr or "digests" not in vr:
                ctx.inconclusive_because("variant worker %d failed: %r" % (vi, vr))
                continue
            if vr["digests"][k] != ref["digests"][k]:
                what = ["shuffle"] * 5 + ["after-polluters", "clock-origin", "repeat"]
                ctx.violation(("in-process:" + what[vi], h(progs[i])), {"case": progs[i], "variant": what[vi],
                                                                         "monitor": "same seed, different batch order/history/clock"})
    str_hashes = {r.get("str_hash") for r in results.values() if r}
    if len(str_hashes) < 2:
        ctx.inconclusive_because("the worker processes did not run under different string hashes: seed dimension not exercised")
    ctx.cov["rule"] = ("closure-heavy generated programs + random programs + corpus scripts, each evaluated on a fresh context "
                       "under %d hash seeds (separate processes, string hashes observed to differ) and 8 in-process variations; "
                       "non-trivial = a program whose full observation (typed outcome, ordered log, error message) was obtained under at "
                       "least two seeds and agreed" % nseeds)
    ctx.cov["programs"] = len(progs)
    ctx.cov["corpus_scripts"] = [n for n, _ in corp]
    ctx.cov["hash_seeds"] = nseeds
    ctx.cov["programs_with_varying_layout"] = layouts_varied     # informational: 0 once the compiler orders its slot tables deterministically
    ctx.cov["distinct_string_hashes_across_workers"] = len(str_hashes)
    ctx.cov["process_runs"] = nseeds + len(variants)
    ctx.sample(progs[0][:1200])
    ctx.sample(progs[nfix + 3][:600])
    ctx.assumptions += ["Math.random/Date.now users are excluded", "digest = hash of typed outcome + ordered log"]
