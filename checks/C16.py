"""C16 — String methods follow ECMAScript for every argument shape.

Node differential over the full product {method} x {receiver grid} x {argument grid per position} (arity 0-2,
pairwise for the third position), on the typed result or the thrown error's class; the receiver must be
unchanged afterwards.  The method list is read from the live engine.  Known deviations are matched
cell-exactly (known/C16.cells.json).
"""
import itertools
import json
import random

from vf import diff
from vf.common import h
from vf.runner import engine_pool, have_node, node_pool

RECEIVERS = ['""', '"a"', '"aaa"', '"Hello World"', '" \\t\\n x \\v\\f\\r "', '"\\u00a0x\\u00a0\\ufeff"', '"12345"', '"abcabc"', '"a,b,,c"', '"AbC"',
             '"\\u00e4\\u00f6\\u00fc\\u00df"', '"a.b*c"']
ARGS = ["undefined", "null", "NaN", "Infinity", "-Infinity", "-1", "0", "1", "2", "5", "100", "1.7", '"2"', '""', '"a"', '"bc"', "true", "-0.5", '"b"', "[]",
        # objects take part through their primitive value (valueOf for numbers, toString for strings), regexps through /source/flags
        "({valueOf: function () { return 1; }, toString: function () { return 'b'; }})", "({toString: function () { return '2'; }})", "({valueOf: function () { return '1'; }})", "[1]", "['b']", "/b/"]
FALLBACK_METHODS = ["charAt", "charCodeAt", "indexOf", "lastIndexOf", "substring", "slice", "split", "toLowerCase", "toUpperCase", "trim",
                    "trimStart", "trimEnd", "concat", "repeat", "startsWith", "endsWith", "includes", "replace", "replaceAll", "match", "search",
                    "toString"]
WRAP = "(function () { var R = %s; var out; try { out = [0, %s]; } catch (e) { out = [1, e && e.name]; } return [out, R === %s]; })()"


def w_methods(case, opts):
    """Which string methods does the live engine implement? (probe the documented list + what typeof says)."""
    from vf import engine as E
    ctx = E.new_context()
    cands = case["candidates"]
    res = ctx.eval("[" + ",".join("typeof ''[%s]" % json.dumps(m) for m in cands) + "]")
    return {"methods": [m for m, t in zip(cands, res) if t == "function"]}


ES_STRING_METHODS = FALLBACK_METHODS + ["at", "codePointAt", "padStart", "padEnd", "substr", "localeCompare", "normalize", "matchAll", "valueOf",
                                        "trimLeft", "trimRight", "anchor", "big", "toLocaleLowerCase", "toLocaleUpperCase"]


def build(methods, ctx, rng):
    progs = []   # (ident, src)
    for m in methods:
        for R in RECEIVERS:
            calls = ["R.%s()" % m]
            calls += ["R.%s(%s)" % (m, a) for a in ARGS]
            calls += ["R.%s(%s, %s)" % (m, a, b) for a in ARGS for b in ARGS]
            for a, b, c in [(rng.choice(ARGS), rng.choice(ARGS), rng.choice(ARGS)) for _ in range(6)]:
                calls.append("R.%s(%s, %s, %s)" % (m, a, b, c))
            for c in calls:
                progs.append(((m, R, c), WRAP % (R, c, R)))
    for R in RECEIVERS:
        progs.append((("length", R, "R.length"), WRAP % (R, "R.length", R)))
        for a in ARGS:
            progs.append((("index", R, "R[%s]" % a), WRAP % (R, "R[%s]" % a, R)))
            progs.append((("String()", R, "String(%s)" % a), WRAP % (R, "String(%s)" % a, R)))
    for a in ARGS + ["65", "97.9", "0x1F600", "65536 + 65", "-1", "1e10", '"66"']:
        progs.append((("fromCharCode", "-", a), WRAP % ('""', "String.fromCharCode(%s)" % a, '""')))
        progs.append((("fromCharCode", "-", a + ",66"), WRAP % ('""', "String.fromCharCode(%s, 66)" % a, '""')))
    return progs


def search_family(methods):
    """Every receiver over {a,b} up to length 5 x every search string over {a,b} up to length 3 (so that occurrences repeat,
    overlap, touch both ends) through every search-taking method, with positions and replacement templates."""
    import itertools
    recv = ["".join(t) for n in range(0, 6) for t in itertools.product("ab", repeat=n)]
    need = ["".join(t) for n in range(0, 4) for t in itertools.product("ab", repeat=n)]
    forms = []
    for m in ("indexOf", "lastIndexOf", "includes", "startsWith", "endsWith"):
        forms += ["R.%s(S)" % m, "R.%s(S, 1)" % m, "R.%s(S, 2)" % m]
    forms += ["R.split(S)", "R.split(S, 2)", "R.replace(S, 'X')", 'R.replace(S, "[$&|$`|$\'|$$]")', "R.replaceAll(S, 'X')", "R.replaceAll(S, '')", "R.replaceAll(S, '$&$&')",
              "R.replaceAll(S, function (m, p) { return '<' + m + p + '>'; })", "R.search(S)", "R.match(S)"]
    forms = [f for f in forms if f.split("(")[0][2:] in methods]
    out = []
    for r in recv:
        for sub in need:
            if len(sub) > len(r) + 1:
                continue
            for f in forms:
                c = f.replace("S", json.dumps(sub), 1)
                out.append(((f.split("(")[0][2:], "search-family", h([r, c])), WRAP % (json.dumps(r), c, json.dumps(r))))
    return out


TPL_TOKENS = ["$", "$$", "$&", "$`", "$'", "$0", "$1", "$2", "$3", "$9", "$00", "$01", "$02", "$03", "$09", "$10", "$11", "$12", "$15", "$20", "$99", "$001", "$010", "$<", "$<n>", "$<x>", "a", "-", "\\", "1", "0", " "]
TPL_PATTERNS = ['"b"', '""', '"a.b"', "/b/", "/(b)/", "/(a)(b)?/", "/(a)|(b)/g", "/b/g", "/(a)(b)(c)(a)(b)(c)(a)(b)(c)/", "/(a)(b)(c)(a)(b)(c)(a)(b)(c)(a)/", "/(a)(b)(c)(a)(b)(c)(a)(b)(c)(a)(b)/g",
                "/((((((((((((a))))))))))))/", "/()()()()()()()()()()b/g", "/(x)?b/", "/^/", "/$/g", "/(?:)/g"]


def template_family(methods, rng, n):
    """replace / replaceAll with string and regular-expression patterns (0 .. 12 groups, optional and named groups) x replacement
    templates drawn from the template token grammar."""
    out = []
    recvs = ['"abcabcabcabc"', '"b"', '""', '"xabcabcabcab"', '"aab"', '"a.b$&"']
    for i in range(n):
        pat = TPL_PATTERNS[i % len(TPL_PATTERNS)] if i < 4 * len(TPL_PATTERNS) else rng.choice(TPL_PATTERNS)
        tpl = "".join(rng.choice(TPL_TOKENS) for _ in range(rng.randint(1, 4)))
        R = rng.choice(recvs)
        m = rng.choice(["replace", "replace", "replaceAll"])
        if m not in methods:
            continue
        c = "R.%s(%s, %s)" % (m, pat, json.dumps(tpl))
        out.append(((m, "template-family", h([R, c])), WRAP % (R, c, R)))
        if i % 5 == 0:
            # a function replacer of every kind (built-in functions and constructors are functions too)
            fn = rng.choice(["String", "Number", "Boolean", "Array", "Math.abs", "parseInt", "String.fromCharCode", "isNaN", "function (m) { return m + m; }", "(m, a) => '<' + a + '>'",
                             "function () { return arguments.length; }", "(function (m) { return this === undefined; }).bind(null)", "function (m) { return undefined; }", "function (m) { return null; }"])
            c2 = "R.%s(%s, %s)" % (m, pat, fn)
            out.append(((m, "template-family", h([R, c2])), WRAP % (R, c2, R)))
    return out


def stateful_regex_family(methods):
    """String methods given a RegExp object that has HISTORY (a lastIndex left by earlier use or set by the script): what the method
    returns and what it leaves in lastIndex."""
    out = []
    pats = ["b", "a*", "(b)(c)?", "^a", "b$", "x", "", "[ab]", "\\b"]
    recvs = ['"abcb"', '"abc"', '"aab aab"', '""', '"bbb"']
    uses = {"search": "R.search(r)", "match": "R.match(r)", "replace": "R.replace(r, '-')", "replace-fn": "R.replace(r, function (m) { return '<' + m + '>'; })", "replaceAll": "R.replaceAll(r, '-')",
            "split": "R.split(r)", "split-limit": "R.split(r, 2)", "matchAll": "Array.from ? Array.from(R.matchAll(r)).length : 0", "startsWith": "R.startsWith(r)", "includes": "R.includes(r)", "indexOf": "R.indexOf(r)"}
    for un, u in uses.items():
        if un.split("-")[0] not in methods:
            continue
        for p in pats:
            for fl in ("", "g", "y", "gy", "gi", "gm"):
                for li in ("0", "1", "2", "9", "-1"):
                    for hist in ("r.lastIndex = %s;" % li, "r.test('ab'); r.lastIndex = r.lastIndex + %s;" % li, "r.exec('xbxb'); r.exec('xbxb');"):
                        if hist.startswith("r.exec") and li != "0":
                            continue
                        R = recvs[(len(p) + len(fl) + len(un) + int(li) * 3) % len(recvs)]
                        src = ("(function () { var R = %s; var r = new RegExp(%s, '%s'); %s var out; try { out = [0, %s]; } catch (e) { out = [1, e && e.name]; } return [out, r.lastIndex, R === %s]; })()"
                               % (R, json.dumps(p), fl, hist, u, R))
                        out.append(((un.split("-")[0], "stateful-regex", h([un, p, fl, li, hist])), src))
    return out


def conversion_order_family(methods):
    """Which argument is converted first, and whose error wins: every argument is an object whose valueOf/toString log their call (and,
    in the throwing variants, throw their own error class); a RegExp in the search position of includes/startsWith/endsWith must be
    refused before the position argument is touched."""
    out = []
    two = {"includes": ["'b'", "1"], "startsWith": ["'b'", "1"], "endsWith": ["'b'", "2"], "indexOf": ["'b'", "1"], "lastIndexOf": ["'b'", "2"],
           "padStart": ["5", "'x'"], "padEnd": ["5", "'x'"], "slice": ["1", "2"], "substring": ["1", "2"], "substr": ["1", "1"], "split": ["'b'", "2"],
           "replace": ["'b'", "'Q'"], "replaceAll": ["'b'", "'Q'"], "concat": ["'x'", "'y'"], "localeCompare": ["'b'", "'en'"]}
    mk = "function A(i, v, t) { return {valueOf: function () { log.push('v' + i); if (t === 'v') { throw new (i ? RangeError : SyntaxError)('a' + i); } return v; }, toString: function () { log.push('s' + i); if (t === 's') { throw new (i ? RangeError : SyntaxError)('a' + i); } return String(v); }}; }"
    for m, (a0, a1) in two.items():
        if m not in methods:
            continue
        for t0 in ("n", "v", "s"):
            for t1 in ("n", "v", "s"):
                for first in ("A(0, %s, '%s')" % (a0, t0), "/b/", "/b/g", "undefined", "null"):
                    if first.startswith("/") and t0 != "n":
                        continue
                    src = ("(function () { var log = []; %s var R = 'abcb'; var out; try { out = [0, R.%s(%s, A(1, %s, '%s'))]; } catch (e) { out = [1, e && e.name, e && /^a[01]$/.test(e.message) ? e.message : 'engine-text']; } "
                           "return [out, log.join()]; })()" % (mk, m, first, a1, t1))
                    out.append(((m, "conversion-order", h([m, t0, t1, first])), src))
    return out


def rand_progs(methods, rng, n):
    out = []
    alpha = "abcXYZ 019,.-\t"
    for _ in range(n):
        m = rng.choice(methods)
        s = "".join(rng.choice(alpha) for _ in range(rng.randint(0, 30)))
        R = json.dumps(s)
        k = rng.randint(0, 2)
        args = []
        for _ in range(k):
            r = rng.random()
            if r < 0.4:
                args.append(str(rng.randint(-5, 35)))
            elif r < 0.7:
                args.append(json.dumps("".join(rng.choice(alpha) for _ in range(rng.randint(0, 3)))))
            else:
                args.append(rng.choice(ARGS))
        c = "R.%s(%s)" % (m, ", ".join(args))
        out.append(((m, "rnd", h([s, c])), WRAP % (R, c, R)))
    return out


def main(ctx):
    rng = random.Random(ctx.seed)
    fixed = random.Random(1616)
    if not have_node():
        ctx.inconclusive_because("reference_unavailable: node missing")
        return
    ep, np_ = engine_pool(), node_pool()
    try:
        live = ep.map({"mod": "checks.C16", "fn": "w_methods"}, [{"candidates": ES_STRING_METHODS}], batch=1, timeout=60)[0]["methods"]
        progs = build(live, ctx, fixed)
        n_grid = len(progs)
        fam = search_family(live)
        progs += fam if not ctx.quick else [x for i, x in enumerate(fam) if i % 2 == ctx.seed % 2]
        progs += template_family(live, fixed, 1500 if ctx.quick else 20000) + template_family(live, rng, 1500 if ctx.quick else 20000)
        sf = stateful_regex_family(live)
        progs += sf if not ctx.quick else [x for i, x in enumerate(sf) if i % 2 == ctx.seed % 2]
        progs += conversion_order_family(live)
        progs += rand_progs(live, fixed, 3000 if ctx.quick else 60000)
        progs += rand_progs(live, rng, 3000 if ctx.quick else 140000)
        pairs = diff.run_progs(ep, np_, [p[1] for p in progs], per=500)
    finally:
        ep.close(); np_.close()
    rec = open(ctx.record_path, "w") if getattr(ctx, "record_path", None) else None
    per_method = {}
    for (ident, src), (e, n) in zip(progs, pairs):
        ctx.count()
        m = ident[0]
        pm = per_method.setdefault(m, [0, 0])
        pm[0] += 1
        if n is None:
            continue
        ok = "ret" in e and "ret" in n and e["ret"] == n["ret"]
        if ok:
            ctx.nontrivial(src if len(ctx._distinct) < 300000 else None)
            continue
        pm[1] += 1
        cid = h(src)
        oh = diff.obs_hash(e)
        if ctx.known_cell(cid, oh):
            continue
        if rec:
            rec.write(json.dumps({"cid": cid, "obs": oh, "m": m, "recv": ident[1], "call": ident[2], "eng": diff.eng_key(e), "ref": n}) + "\n")
        ctx.violation(("string-method", m, classify(e, n)), {"case": {"receiver": ident[1], "call": ident[2], "src": src}, "engine": diff.eng_key(e), "reference": n,
                                                             "monitor": "node differential (typed result / error class / receiver unchanged)"})
    if rec:
        rec.close()
    ctx.cov["rule"] = ("full product of the live engine's String methods x 12 receivers x 20 argument values for arity 0, 1 and 2 (sampled arity 3), "
                       "length/index/String()/fromCharCode, + seeded random receivers and arguments; compared with node on typed result or "
                       "error class and 'receiver unchanged'; non-trivial = agreeing cases (distinct source)")
    ctx.cov["methods_from_live_engine"] = live
    ctx.cov["grid_cells"] = n_grid
    ctx.cov["grid_exhaustive"] = True
    ctx.cov["per_method_[cases,disagreements_incl_known]"] = per_method
    ctx.sample(progs[100][1])
    ctx.sample(progs[-1][1])
    ctx.assumptions += ["node v20 is the reference; toLowerCase/toUpperCase receivers are ASCII + Latin-1 (documented ASCII-only mapping is judged on ASCII receivers; Latin-1 cells are listed if they differ)"]


def classify(e, n):
    if "err" in e:
        k = e["err"].get("kind")
        return "host-exception:" + str(e["err"].get("cls")) if k == "host" else "js-error"
    try:
        eo, no = e["ret"][2][0], n["ret"][2][0]
        if eo[2][0] != no[2][0]:
            return "throws-vs-returns"
        return "value"
    except Exception:
        return "other"
