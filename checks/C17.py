"""C17 — Array and typed-array methods compute, mutate and alias as specified.

Monitors: (1) node differential with deep snapshots: result, receiver contents after the call, identity relation
(result is the receiver vs a fresh array), callback log (value, index, array identity, this); (2) a Python model for
the documented stricter-mode rules, which are not node's semantics (write at index length appends, write beyond is
an error, no holes, length assignment truncates / extends with undefined); (3) history checker: random sequences of
mutating calls on shared/aliased arrays, full snapshot after each step, against node; (4) typed arrays: store/load
conversions for all nine kinds over a numeric boundary grid and overlapping views over one buffer, against node.
"""
import json
import random

from vf import diff
from vf.common import h
from vf.runner import engine_pool, have_node, node_pool

RECEIVERS = ["[]", "[1]", "[1, 2, 3]", "[3, 1, 2]", '["b", "a", "c"]', '[1, "1", true, null, undefined]', "[[1], [2]]", "[NaN, 0, -0]", "[undefined, 3, undefined, 1]",
             '["10", "9", "1", 2]', "[1, 2, 3, 4, 5, 6]", '["x", "x", "y"]',
             # the same nested array object more than once (a shared reference is not a cycle), directly and through other arrays
             "(function () { var b = [1, 2]; return [b, b]; })()", "(function () { var b = [5]; return [[b, b], [5, 1], b]; })()",
             "(function () { var b = [2, 1]; var c = [b, 3]; return [c, b, c]; })()"]
ARGS = ["undefined", "null", "NaN", "Infinity", "-Infinity", "-1", "0", "1", "2", "3", "100", "1.5", '"1"', '"a"', "true", "-2",
        "({valueOf: function () { return 1; }, toString: function () { return 'x'; }})", "({toString: function () { return '2'; }})", "[1]"]
METHODS = ["push", "pop", "shift", "unshift", "toString", "join", "map", "filter", "reduce", "reduceRight", "forEach", "indexOf", "lastIndexOf", "find", "findIndex", "some", "every",
           "concat", "slice", "splice", "reverse", "includes", "sort"]
CB_METHODS = {"map", "filter", "forEach", "find", "findIndex", "some", "every"}
CALLBACKS = [
    ("log", "function (v, i, a) { L.push([v, i, a === A, this === undefined ? 'u' : this === T ? 'T' : typeof this]); return v; }"),
    ("pred", "function (v) { return v > 1; }"),
    ("push", "function (v, i, a) { L.push(v); if (a.length < 8) { a.push('p' + i); } return true; }"),
    ("pop", "function (v, i, a) { L.push([v, i]); a.pop(); return false; }"),
    ("clear", "function (v, i, a) { L.push(v); a.length = 0; return true; }"),
    ("arrow", "(v, i) => v + '' + i"),
]
THIS_ARGS = ["0", "-0", "''", "false", "null", "undefined", "NaN", "5", "'s'", "true", "[]", "A", "Math"]
THIS_CB = ("function (v, i) { L.push([i, this === undefined ? 'u' : this === null ? 'null' : this === A ? 'A' : typeof this, typeof this === 'object' || typeof this === 'function' ? '' : String(this), "
           "typeof this === 'number' ? 1 / this : 0]); return v; }")
RED_CALLBACKS = [("sum", "function (acc, v, i, a) { L.push([acc, v, i, a === A]); return acc + v; }"), ("arr", "function (acc, v) { return [acc, v]; }")]
PROBE = ("(function () { var L = []; var T = {t: 1}; var A = %s; var out; try { out = [0, %s]; } catch (e) { out = [1, e && e.name]; } "
         "return [out, A, out[1] === A, L, A.length]; })()")


def grid(rng):
    progs = []
    for m in METHODS:
        for R in RECEIVERS:
            calls = []
            if m in CB_METHODS:
                for cn, cb in CALLBACKS:
                    calls.append("A.%s(%s)" % (m, cb))
                    if cn == "log":
                        calls.append("A.%s(%s, T)" % (m, cb))
                        # every kind of thisArg, the falsy ones included: the callback reports what it was given
                        for ta in THIS_ARGS:
                            calls.append("A.%s(%s, %s)" % (m, THIS_CB, ta))
                calls += ["A.%s()" % m, "A.%s(undefined)" % m, "A.%s(null)" % m, "A.%s(5)" % m]
            elif m in ("reduce", "reduceRight"):
                for cn, cb in RED_CALLBACKS:
                    calls += ["A.%s(%s)" % (m, cb), "A.%s(%s, 10)" % (m, cb), "A.%s(%s, undefined)" % (m, cb), "A.%s(%s, '')" % (m, cb)]
                calls += ["A.%s()" % m, "A.%s(5)" % m]
            elif m == "sort":
                calls += ["A.sort()", "A.sort(undefined)", "A.sort(function (a, b) { return a - b; })", "A.sort(function (a, b) { return b > a ? 1 : b < a ? -1 : 0; })",
                          "A.sort(function (a, b) { return 0; })", "A.sort(function (a, b) { L.push(1); return NaN; }).length", "A.sort(function (a, b) { return 0.5; }).length",
                          "A.sort(function (a, b) { return (a > b) - 0.5; }).length", "A.sort(function (a, b) { return '1'; }).length"]
            else:
                calls.append("A.%s()" % m)
                calls += ["A.%s(%s)" % (m, a) for a in ARGS]
                calls += ["A.%s(%s, %s)" % (m, a, b) for a in ARGS for b in ARGS]
                if m in ("splice", "concat", "push", "unshift", "slice"):
                    for _ in range(20):
                        calls.append("A.%s(%s, %s, %s)" % (m, rng.choice(ARGS), rng.choice(ARGS), rng.choice(ARGS + ["[7, 8]", "A"])))
                if m == "concat":
                    calls += ["A.concat([7, [8]])", "A.concat(A)", "A.concat([], [9], 10)"]
            for c in calls:
                progs.append((m, PROBE % (R, c)))
    # stability and default order of sort with tagged equal keys
    progs.append(("sort-stable", "var A = []; for (var i = 0; i < 40; i++) { A.push({k: i % 4, t: i}); } A.sort(function (a, b) { return a.k - b.k; }); A.map(function (o) { return o.k + ':' + o.t; }).join()"))
    progs.append(("sort-default", '[10, 9, 1, "b", undefined, "a", null, true, -1, [2], {}, NaN, undefined, 2].sort().map(String)'))
    progs.append(("sort-default", "[3, undefined, 1].sort()"))
    progs.append(("isArray", "[Array.isArray([]), Array.isArray({}), Array.isArray('a'), Array.isArray(new Array(2)), Array.isArray()]"))
    progs.append(("Array()", "[new Array(3).length, new Array(1, 2).length, Array(2).length, new Array('3').length, new Array().length, new Array(2)[0]]"))
    return progs


# documented stricter-mode rules: judged by a model, not by node
STRICT_CASES = [
    ("append-at-length", "var a = [1, 2]; a[2] = 3; [a, a.length]", ["ok", [[1, 2, 3], 3]]),
    ("append-at-zero", "var a = []; a[0] = 'x'; [a, a.length]", ["ok", [["x"], 1]]),
    ("write-beyond", "var a = [1, 2]; a[5] = 3; [a, a.length]", ["throws"]),
    ("write-beyond-by-one", "var a = [1]; a[2] = 3; a", ["throws"]),
    ("write-negative", "var a = [1]; a[-1] = 3; [a.length, a[-1]]", ["any"]),
    ("length-truncate", "var a = [1, 2, 3]; a.length = 1; [a, a.length, a[1]]", ["ok", [[1], 1, None]]),
    ("length-extend", "var a = [1]; a.length = 3; [a.length, a[1], a[2], 1 in a]", ["any"]),
    ("length-zero", "var a = [1, 2]; a.length = 0; [a, a.length]", ["ok", [[], 0]]),
    ("no-holes-literal", "var a = [1, 2, 3]; delete a[1]; [a.length]", ["ok", [3]]),
    ("overwrite", "var a = [1, 2, 3]; a[1] = 'x'; a", ["ok", [1, "x", 3]]),
    ("string-index", "var a = [1, 2]; a['1'] = 'y'; a", ["ok", [1, "y"]]),
    ("fraction-index", "var a = [1]; a[1.5] = 2; a", ["throws"]),
    ("push-then-index", "var a = []; a.push(1); a[a.length] = 2; a[a.length] = 3; a", ["ok", [1, 2, 3]]),
]

TYPED = ["Int8Array", "Uint8Array", "Uint8ClampedArray", "Int16Array", "Uint16Array", "Int32Array", "Uint32Array", "Float32Array", "Float64Array"]
TVALS = ["0", "-0", "1", "-1", "127", "128", "129", "255", "256", "257", "-128", "-129", "32767", "32768", "65535", "65536", "2147483647", "2147483648", "4294967295", "4294967296",
         "-2147483649", "1.5", "2.5", "-1.5", "0.5", "254.5", "255.5", "1e10", "-1e10", "1e40", "NaN", "Infinity", "-Infinity", "3.999", "16777217", "0.1", '"7"', "true", "null",
         "undefined", "5e-324"]


def typed_progs():
    progs = []
    for t in TYPED:
        for v in TVALS:
            progs.append(("typed-store", "var a = new %s(2); a[0] = %s; [a[0], a[1], a.length]" % (t, v)))
        progs.append(("typed-ctor", "[new %s(3).length, new %s([1.7, -1, 300]).join(), new %s().length, new %s(2).BYTES_PER_ELEMENT]" % (t, t, t, t)))
        for idx in ("2", "5", "-1", "1.5", '"1"', '"x"'):
            progs.append(("typed-index", "var a = new %s(2); a[%s] = 7; [a[0], a[1], a.length, a[%s]]" % (t, idx, idx)))
    views = [("Uint8Array", "Int16Array"), ("Uint8Array", "Float32Array"), ("Int32Array", "Uint8Array"), ("Float64Array", "Uint32Array"), ("Uint16Array", "Int8Array"),
             ("Uint8ClampedArray", "Uint8Array")]
    for a, b in views:
        for v in ("1", "258", "-1", "1.5", "65537", "3.14", "255", "-129"):
            progs.append(("views", "var buf = new ArrayBuffer(16); var x = new %s(buf); var y = new %s(buf); x[1] = %s; var r1 = [x[1], y[0], y[1], y[2], y[3]]; y[0] = 7; [r1, x[0], x[1], buf.byteLength]" % (a, b, v)))
        progs.append(("views-offset", "var buf = new ArrayBuffer(16); var x = new Uint8Array(buf); var y = new %s(buf, 8, 1); y[0] = 258; [x[8], x[9], x[10], y.length, x.length]" % b.replace("Int8Array", "Int16Array")))
    progs.append(("subarray", "var a = new Int16Array([1, 2, 3, 4]); var s = a.subarray(1, 3); s[0] = 9; [a.join(), s.join(), s.length]"))
    progs.append(("set", "var a = new Uint8Array(4); a.set([1, 2], 1); a.set(new Uint8Array([9]), 3); a.join()"))
    return progs


def history_prog(rng):
    lines = ["var A = [1, 2, 3]; var B = A; var C = [A, [4]]; var out = [];"]
    for _ in range(rng.randint(4, 12)):
        tgt = rng.choice(["A", "B", "C[0]", "C[1]", "C[1]"])   # C itself is only observed: its slots must stay arrays
        op = rng.choice(["push(%d)", "pop()", "shift()", "unshift(%d)", "reverse()", "splice(%d, 1)", "splice(1, 0, %d)", "sort()", "concat([%d])", "slice(%d)", "length = %d",
                         "[%d] = 'w'", "map(function (v) { return v; })", "filter(function (v) { return true; })", "indexOf(%d)", "join('-')"])
        k = rng.randint(0, 3)
        if op.startswith("length"):
            k2 = rng.randint(0, 2)
            lines.append("if (%s.length > %d) { %s.length = %d; }" % (tgt, k2, tgt, k2))   # truncation only: extension would need holes
        elif op.startswith("["):
            lines.append("var t = %s; if (%d < t.length) { t%s; }" % (tgt, k, op % k))
        else:
            lines.append("out.push(%s.%s);" % (tgt, (op % k) if "%d" in op else op))
        lines.append("out.push([A.slice(), B === A, C[0] === A, C.length, C[1].slice()]);")
    lines.append("out")
    return " ".join(lines)


VIEW_VALUES = ["0", "-0", "1", "7", "255", "256", "-1", "1.5", "NaN", "65536", "2147483648", "-129", "3.14", "Infinity", "'5'", "true", "undefined", "null"]


def view_history(rng):
    """Several views (constructed on the buffer with offsets/lengths, subarrays, subarrays of subarrays) over ONE buffer, then a
    random sequence of stores through any of them - with few distinct values, so that a view is often asked to store what it
    stored before while another view has changed the bytes in between - and a snapshot of every view after every step."""
    size = rng.choice([8, 16, 24])
    lines = ["var buf = new ArrayBuffer(%d); var V = []; var H = [];" % size,
             "function SNAP() { var o = []; for (var i = 0; i < V.length; i++) { o.push(V[i].join(',')); } H.push(o.join('|')); }"]
    n = 0
    for _ in range(rng.randint(2, 5)):
        k = rng.random()
        if k < 0.5 or n == 0:
            t = rng.choice(TYPED)
            bpe = {"Int8Array": 1, "Uint8Array": 1, "Uint8ClampedArray": 1, "Int16Array": 2, "Uint16Array": 2, "Int32Array": 4, "Uint32Array": 4, "Float32Array": 4, "Float64Array": 8}[t]
            off = rng.randrange(0, size // bpe) * bpe if rng.random() < 0.5 else 0
            maxlen = (size - off) // bpe
            if rng.random() < 0.5 and maxlen >= 1:
                lines.append("V.push(new %s(buf, %d, %d));" % (t, off, rng.randint(1, maxlen)))
            elif off:
                lines.append("V.push(new %s(buf, %d));" % (t, off))
            else:
                lines.append("V.push(new %s(buf));" % t)
        else:
            src = rng.randrange(n)
            a, b2 = rng.randint(0, 4), rng.randint(0, 8)
            lines.append("V.push(V[%d].subarray(%d, %d));" % (src, min(a, b2), max(a, b2)) if rng.random() < 0.7 else "V.push(V[%d].subarray(%d));" % (src, a))
        n += 1
    lines.append("SNAP();")
    pool = rng.sample(VIEW_VALUES, 4)
    for _ in range(rng.randint(6, 16)):
        v = rng.randrange(n)
        k = rng.random()
        if k < 0.8:
            lines.append("V[%d][%d] = %s; SNAP();" % (v, rng.randint(0, 5), rng.choice(pool)))
        elif k < 0.9:
            lines.append("try { V[%d].set([%s, %s], %d); } catch (e) { H.push(e.name); } SNAP();" % (v, rng.choice(pool), rng.choice(pool), rng.randint(0, 2)))
        else:
            lines.append("try { V[%d].set(V[%d]); } catch (e) { H.push(e.name); } SNAP();" % (v, rng.randrange(n)))
    lines.append("H")
    return "\n".join(lines)


def main(ctx):
    rng = random.Random(ctx.seed)
    fixed = random.Random(1717)
    if not have_node():
        ctx.inconclusive_because("reference_unavailable: node missing (stricter-mode model still runs)")
    progs = grid(fixed) + typed_progs()
    for i in range(400 if ctx.quick else 8000):
        progs.append(("view-history", view_history(fixed if i % 2 == 0 else rng)))
    for i in range(400 if ctx.quick else 15000):
        progs.append(("history", history_prog(fixed if i % 2 == 0 else rng)))
    ep = engine_pool()
    np_ = node_pool() if have_node() else None
    try:
        pairs = diff.run_progs(ep, np_, [p[1] for p in progs], per=300, opts={"fresh_each": True, "max_steps": 200000})
        spairs = diff.run_progs(ep, None, [strict_wrap(s) for _, s, _ in STRICT_CASES], per=50, opts={"fresh_each": True, "py": True})
    finally:
        ep.close()
        if np_:
            np_.close()
    rec = open(ctx.record_path, "w") if getattr(ctx, "record_path", None) else None
    fams = {}
    for (kind, src), (e, n) in zip(progs, pairs):
        ctx.count()
        st = fams.setdefault(kind, [0, 0])
        st[0] += 1
        if n is None:
            continue
        ok = "ret" in e and "ret" in n and e["ret"] == n["ret"]
        if not ok and "err" in n and "err" in e and e["err"].get("kind") == "js" and e["err"].get("name") == n["err"]:
            ok = True     # both throw the same error class (e.g. a generated history calls a method on a non-array)
        if ok:
            ctx.nontrivial(src if len(ctx._distinct) < 200000 else None)
            continue
        st[1] += 1
        cid = h(src)
        oh = diff.obs_hash(e)
        if ctx.known_cell(cid, oh):
            continue
        if rec:
            rec.write(json.dumps({"cid": cid, "obs": oh, "kind": kind, "src": src, "eng": diff.eng_key(e), "ref": n}) + "\n")
        ctx.violation(("array", kind, why(e, n)), {"case": src[:900], "engine": diff.eng_key(e), "reference": n})
    for (name, src, want), (e, _) in zip(STRICT_CASES, spairs):
        ctx.count()
        prob = None
        got = e.get("py") if "ret" in e else None
        tag = got[1][0][1] if got and got[0] == "l" else None
        if "ret" not in e:
            prob = "probe failed: %r" % (diff.eng_key(e),)
        elif want[0] == "throws" and tag != "threw":
            prob = "a write beyond the end must be an error, got %r" % (got,)
        elif want[0] == "ok":
            if tag != "ok" or unpy(got[1][1]) != want[1]:
                prob = "expected %r, got %r" % (want[1], unpy(got[1][1]) if tag == "ok" else got)
        if prob is None:
            ctx.nontrivial("strict:" + name)
            continue
        cid = h(["strict", name])
        if ctx.known_cell(cid, h(prob.split(",")[0], 10)):
            continue
        if rec:
            rec = rec
        ctx.violation(("stricter-mode", name), {"case": src, "problem": prob, "monitor": "Python model of the documented stricter-mode array rules"})
    if rec:
        rec.close()
    ctx.cov["rule"] = ("23 Array methods x 12 receivers (length 0-6, mixed primitives, nested arrays, undefined elements) x 16-value index grid for arity 0-2 "
                       "(sampled arity 3), callbacks that log (value, index, array identity, this), test, mutate or clear the receiver, with and without "
                       "thisArg; each probe returns [result, receiver after, result === receiver, callback log, length]; typed arrays: 9 kinds x 41 stored "
                       "values x index forms, overlapping views; random histories of mutating calls on aliased arrays; stricter-mode rules by model; "
                       "non-trivial = agreeing cases")
    ctx.cov["families_[cases,disagreements_incl_known]"] = fams
    ctx.cov["stricter_mode_cases"] = len(STRICT_CASES)
    ctx.sample(progs[300][1])
    ctx.sample(progs[-1][1][:500])
    ctx.assumptions += ["node v20 is the reference except for the documented stricter-mode rules, which a Python model judges"]


def strict_wrap(src):
    """Run a statement list through indirect eval inside try/catch: ['ok', completion value] or ['threw', name]."""
    return ("(function () { var R; try { R = ['ok', (0, eval)(%s)]; } catch (e) { R = ['threw', e && e.name]; } return R; })()"
            % json.dumps(src))


def unpy(e):
    t = e[0]
    if t == "N":
        return None
    if t in ("b", "s"):
        return e[1]
    if t == "i":
        return int(e[1])
    if t == "d":
        import struct
        f = struct.unpack(">d", bytes.fromhex(e[1]))[0] if e[1] != "nan" else float("nan")
        return int(f) if f == int(f) else f
    if t == "l":
        return [unpy(x) for x in e[1]]
    if t == "m":
        return {k: unpy(v) for k, v in e[1]}
    return e


def why(e, n):
    if "err" in e:
        return "host-exception:" + str(e["err"].get("cls")) if e["err"].get("kind") == "host" else "js-error:" + str(e["err"].get("name"))
    try:
        a, b = e["ret"][2][0], n["ret"][2][0]
        if a[2][0] != b[2][0]:
            return "throws-vs-returns"
        if a != b:
            return "result"
        if e["ret"][2][1] != n["ret"][2][1]:
            return "receiver-after"
        if e["ret"][2][3] != n["ret"][2][3]:
            return "callback-log"
    except Exception:
        pass
    return "other"
