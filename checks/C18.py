"""C18 — numbers print, parse and round as IEEE doubles the ECMAScript way.

Monitors: node differential for number-to-string text (exact strings) and string-to-number results (bit-exact);
Math: special-value grid bit-exact against node, elsewhere the exact value is computed with mpmath at 60 digits
and the engine's result must be within 1 ulp (cases where node itself is > 1 ulp from mpmath are dropped as
reference-uncertain and counted).  Known deviations are matched cell-exactly (known/C18.cells.json).
"""
import json
import math
import random
import struct

from vf import diff
from vf.common import h
from vf.runner import engine_pool, have_node, node_pool

WRAP = "(function () { try { return [0, %s]; } catch (e) { return [1, e && e.name]; } })()"


def lit(x):
    if x != x:
        return "NaN"
    if x == float("inf"):
        return "Infinity"
    if x == float("-inf"):
        return "(-Infinity)"
    if x == 0 and math.copysign(1, x) < 0:
        return "(-0)"
    r = repr(float(x))
    return "(" + r + ")" if r.startswith("-") else r


def doubles(rng, n):
    out = [0.0, -0.0, float("nan"), float("inf"), float("-inf"), 1.0, -1.0, 0.5, 1.5, 2.5, -2.5, 0.1, 0.2, 0.3, 1 / 3, 2 / 3, 1.005, 1.255, 8.345, 0.000001, 0.0000001,
           1e21, 1e21 - 65536, 999999999999999868928.0, 1.2e21, 123456789012345680000.0, 1e-6, 1e-7, 9.5e-7, 1.5e-7, 2 ** 53, 2 ** 53 + 2, 2 ** 53 - 1, 5e-324, 2.2250738585072014e-308,
           1.7976931348623157e308, 4.35, 0.615, 10.235, 1.45, 0.045, 25.0, 100.0, 1e15, 1e16, 123.456, 0.00001, 1000000000000000128.0, 255.0, 256.5, -255.5, 0.5e-6, 1.0000000000000002]
    for k in range(-1074, 1024, 37 if n < 500 else 7):
        out += [2.0 ** k, -(2.0 ** k)]
    for k in range(-323, 309, 11 if n < 500 else 3):
        v = float("1e%d" % k)
        out += [v, math.nextafter(v, math.inf), math.nextafter(v, -math.inf)]
    for k in range(0, 22):
        out += [float("5e%d" % (-k - 1)), float("1.5e%d" % k), float("2.5e-%d" % k), float("0.%s5" % ("0" * (k % 10)))]
    for _ in range(n):
        bits = rng.getrandbits(64)
        v = struct.unpack(">d", struct.pack(">Q", bits))[0]
        out.append(v)
        out.append(round(rng.uniform(-1000, 1000), rng.randint(0, 6)))
        out.append(rng.randint(-10 ** 6, 10 ** 6) / 10 ** rng.randint(0, 8))
    return out


RADIX = ["", "undefined", "2", "8", "10", "16", "36", "3", "0", "1", "37", "NaN", "10.9", "-1", '"16"', "2.9", "36.9", "1.9", "36.0000001", "1.9999999", "-0.5", "null", "true", "Infinity", '"0x10"', "4294967298", "1e21"]
# around every edge of the accepted ranges: integers, fractions that truncate into and out of range, the other types
DIGITS = ["", "undefined", "0", "1", "2", "3", "10", "20", "21", "100", "101", "-1", "NaN", "1.9", '"2"', "-0.5", "-0.9999", "-1.5", "-0", "0.5", "0.9999", "100.5", "100.9999", "101.5", "99.9", "20.5", "21.5",
          '"-0.1"', '"100.9"', '"1e2"', '" 3 "', '""', '"abc"', "null", "true", "false", "Infinity", "-Infinity", "1e21", "4294967297", "-4294967295", "2147483648.5", "[]", "[2]", "[2, 3]", "({valueOf: function () { return 2; }})", "({toString: function () { return '3'; }})", "({valueOf: function () { return '1'; }, toString: function () { return '9'; }})"]


def format_progs(ds):
    progs = []
    for d in ds:
        L = lit(d)
        progs.append(("concat", WRAP % (L + ' + ""')))
        progs.append(("String", WRAP % ("String(" + L + ")")))
        progs.append(("JSON", WRAP % ("JSON.stringify(" + L + ")")))
        progs.append(("template-arr", WRAP % ("[" + L + "].join()")))
        integral = d == d and abs(d) != float("inf") and d == math.floor(d)
        for r in RADIX:
            if r not in ("", "undefined", "10", "10.9") and d == d and abs(d) != float("inf") and (not integral or abs(d) > 2 ** 53):
                continue   # non-decimal radix of a fraction / of an integer beyond 2^53 is implementation-approximated: not judged
            progs.append(("toString:" + r, WRAP % (L + ".toString(" + r + ")")))
        for k in DIGITS:
            progs.append(("toFixed", WRAP % (L + ".toFixed(" + k + ")")))
            progs.append(("toPrecision", WRAP % (L + ".toPrecision(" + k + ")")))
            progs.append(("toExponential", WRAP % (L + ".toExponential(" + k + ")")))
    return progs


def numeric_strings(rng, n):
    ws = ["", " ", "\\t", "\\n", "  ", "\\u00a0", "\\ufeff", "\\u2028", "\\v\\f\\r"]
    core = ["0", "1", "12", "007", "-0", "+0", "-1", "+1", "1.5", ".5", "5.", "-.5", "+.5", "1e3", "1E3", "1e+3", "1e-3", "1.5e2", ".5e1", "5.e1", "1e", "1e+", "e5", ".", "-", "+",
            "0x10", "0X1f", "0xg", "0x", "-0x10", "+0x10", "0o17", "0O7", "0o8", "0b101", "0B1", "0b2", "Infinity", "-Infinity", "+Infinity", "infinity", "INFINITY", "Inf", "NaN", "nan",
            "1_000", "1,000", "1 2", "12px", "px12", "1e1000", "-1e1000", "1e-1000", "0.0000001", "123456789012345678901234567890", "9007199254740993", "0.1e1", "00.5", "0.5.5",
            "1..", "++1", "--1", "+-1", "1+", "true", "null", "undefined", "", "0x1p3", "1n", "१२", "١", "１２", "1e3e3", "0e0", "-0.0", "-0e-0", "4.9e-324", "2.4703282292062328e-324", "1.7976931348623159e308"]
    out = []
    for c in core:
        out.append(c)
        out.append(ws[rng.randrange(len(ws))] + c + ws[rng.randrange(len(ws))])
    for _ in range(n):
        c = rng.choice(core)
        k = rng.random()
        if k < 0.3 and c:
            i = rng.randrange(len(c))
            c = c[:i] + rng.choice("0123456789.eE+-xabcf _") + c[i + 1:]
        elif k < 0.5:
            c = c + rng.choice(["", "0", ".", "e", "x", " ", "px", "e1", "f", "n"])
        elif k < 0.6:
            c = rng.choice(["-", "+", " ", "0", "."]) + c
        out.append(c)
        out.append("%s%d.%d%s" % (rng.choice(["", "-", "+"]), rng.randint(0, 10 ** rng.randint(0, 18)), rng.randint(0, 10 ** rng.randint(0, 18)),
                                  rng.choice(["", "e%d" % rng.randint(-330, 310), "E+%d" % rng.randint(0, 30)])))
    return list(dict.fromkeys(out))


PI_RADIX = ["", "undefined", "0", "2", "8", "10", "16", "36", "37", "1", "-1", "NaN", '"16"', "10.5", "Infinity", "null",
            # the radix goes through ToInt32: values that wrap into (and out of) 2..36, fractions, other types
            "4294967296", "4294967298", "4294967312", "4294967333", "-4294967294", "-4294967280", "8589934608", "2147483650", "1e300", "-1e300", '"4294967298"', "16.9", "36.9", "1.9", "-0", "true", "[16]", "-Infinity", "4294967295"]


def parse_progs(strs):
    progs = []
    for s in strs:
        S = '"' + s.replace('"', '\\"') + '"' if "\\" in s else json.dumps(s)
        progs.append(("Number", WRAP % ("Number(" + S + ")")))
        progs.append(("unary+", WRAP % ("+" + S)))
        progs.append(("*1", WRAP % (S + " * 1")))
        progs.append(("-0", WRAP % (S + " - 0")))
        progs.append(("parseFloat", WRAP % ("parseFloat(" + S + ")")))
        progs.append(("Number.parseFloat", WRAP % ("Number.parseFloat(" + S + ")")))
        for r in PI_RADIX:
            progs.append(("parseInt", WRAP % ("parseInt(" + S + (", " + r if r else "") + ")")))
        progs.append(("Number.parseInt", WRAP % ("Number.parseInt(" + S + ", 16)")))
        progs.append(("isNaN/isFinite", WRAP % ("[isNaN(" + S + "), isFinite(" + S + "), Number.isNaN(" + S + "), Number.isInteger(" + S + ")]")))
    # long digit runs in every radix whose value still fits 53 bits exactly (any truncation of the digit run shows), with leading zeros
    import math
    rng = random.Random(len(strs))
    digs = "0123456789abcdefghijklmnopqrstuvwxyz"
    for radix in range(2, 37):
        maxlen = int(53 / math.log2(radix))
        for L in sorted({maxlen, maxlen - 1, max(1, maxlen // 2), 41, 45}):
            if L > maxlen:
                continue
            for lead in ("", "000", "0" * 60):
                for _ in range(2):
                    body = "".join(rng.choice(digs[:radix]) for _ in range(L))
                    body = (digs[1] if body[0] == "0" else body[0]) + body[1:]
                    progs.append(("parseInt", WRAP % ("parseInt(%s, %d)" % (json.dumps(lead + body), radix))))
    # rounding decided by a digit far to the right: in the radixes where the result must be the correctly rounded double (powers of two,
    # and 10) a run of 54 significant bits followed by k zero digits and one last non-zero digit is just above a halfway point
    for radix, bits in ((2, 1), (4, 2), (8, 3), (16, 4), (32, 5)):
        for k in (10, 100, 399, 400, 401, 450, 1000, 5000):
            head = "1" + "0" * 52 + "1"          # 2^53 + 1 in binary: needs the 54th bit
            n = int(head, 2)
            body = ""
            while n:
                body = digs[n % radix] + body
                n //= radix
            for last in ("1", "0"):
                progs.append(("parseInt-exact", WRAP % ("parseInt(%s, %d) === %s" % (json.dumps(body + "0" * k + last), radix, "(Math.pow(2, 53) + %d) * Math.pow(%d, %d)" % (2 if last == "1" else 0, radix, k + 1)))))
    for k in (10, 300, 399, 400, 401, 1000):
        progs.append(("parseInt-exact", WRAP % ("parseInt(%s) === Number(%s)" % (json.dumps("9007199254740993" + "0" * k + "1"), json.dumps("9007199254740993" + "0" * k + "1")))))
        progs.append(("parseInt-exact", WRAP % ("parseInt(%s) === Number(%s)" % (json.dumps("9007199254740993" + "0" * k), json.dumps("9007199254740993" + "0" * k)))))
    return progs


SPECIAL = [float("nan"), 0.0, -0.0, 1.0, -1.0, float("inf"), float("-inf"), 0.5, -0.5, 1.5, -1.5, 2.5, -2.5, 0.49999999999999994, -0.49999999999999994, 2 ** 52 + 0.5, 2.0 ** 53,
           -(2.0 ** 53), 1e308, -1e308, 5e-324, -5e-324, 709.0, 710.0, -745.0, -746.0, 2.0, 10.0, 8.0, -8.0, 100.0, 1e-10, 3.141592653589793, 1.5707963267948966, 4294967295.0,
           4294967296.0, 2147483648.0, -2147483649.0, 0.1, 1e21, 16777217.0, 1e40, 3.5, -3.5, 1.0000000000000002, 0.9999999999999999]
MATH_FUNCS_1 = ["abs", "floor", "ceil", "round", "trunc", "sqrt", "sin", "cos", "tan", "asin", "acos", "atan", "log", "exp", "sign", "fround", "clz32", "cbrt", "log2", "log10", "expm1",
                "log1p", "sinh", "cosh", "tanh", "asinh", "acosh", "atanh"]
MATH_FUNCS_2 = ["pow", "atan2", "min", "max", "hypot", "imul"]
EXTRA_ARGS = ["undefined", "null", '"2"', '"x"', "true", "[]", "{}"]
EDGE32 = ["3.4028234663852886e38", "3.4028235e38", "3.4028235677973362e38", "3.4028235677973366e38", "3.402823567797337e38", "3.4028236e38", "3.5e38", "1e39", "1.7014118346046923e38",
          "1.401298464324817e-45", "7.006492321624085e-46", "7.006492321624086e-46", "7.00649232162408e-46", "2.1019476964872256e-45", "1.1754943508222875e-38", "1.1754942106924411e-38",
          "16777216", "16777217", "16777218", "16777219", "1.0000000596046448", "1.00000005960464477", "1.00000005960464478", "1.0000001788139343", "0.1", "0.30000001192092896",
          "2147483647", "2147483648", "2147483649", "4294967295", "4294967296", "4294967297", "2147483647.5", "4294967295.5", "9007199254740991", "9007199254740993", "0.5", "1.5", "2.5",
          "0.49999999999999994", "4503599627370495.5", "4503599627370496.5"]


def math_progs(live, rng, nrand):
    progs = []
    for f in live:
        progs.append(("Math:" + f, "special", WRAP % ("Math.%s()" % f), None))
        for a in SPECIAL:
            progs.append(("Math:" + f, "special", WRAP % ("Math.%s(%s)" % (f, lit(a))), None))
        for a in EXTRA_ARGS:
            progs.append(("Math:" + f, "special", WRAP % ("Math.%s(%s)" % (f, a)), None))
        if f in ("fround", "clz32", "imul", "round", "trunc", "floor", "ceil", "sign", "abs", "sqrt", "cbrt"):
            # narrower formats have edges of their own: around the largest / smallest float32, its rounding ties, the int32 / uint32 edges
            for a in EDGE32:
                progs.append(("Math:" + f, "special", WRAP % ("Math.%s(%s)" % (f, a)), None))
                progs.append(("Math:" + f, "special", WRAP % ("Math.%s(-%s)" % (f, a)), None))
        if f in MATH_FUNCS_2:
            for a in SPECIAL[:30]:
                for b in SPECIAL[:30]:
                    progs.append(("Math:" + f, "special", WRAP % ("Math.%s(%s, %s)" % (f, lit(a), lit(b))), None))
            progs.append(("Math:" + f, "special", WRAP % ("Math.%s(1, 2, 3)" % f), None))
            progs.append(("Math:" + f, "special", WRAP % ("Math.%s(3, NaN, 1)" % f), None))
        for _ in range(nrand):
            if f in MATH_FUNCS_2:
                a, b = rng.uniform(-50, 50), rng.uniform(-50, 50)
                if f == "pow":
                    a = abs(a)
                progs.append(("Math:" + f, "ulp", WRAP % ("Math.%s(%s, %s)" % (f, lit(a), lit(b))), (f, a, b)))
            else:
                a = rng.uniform(-1, 1) * 10 ** rng.randint(-5, 2) if f not in ("exp", "expm1", "sinh", "cosh") else rng.uniform(-700, 700)
                progs.append(("Math:" + f, "ulp", WRAP % ("Math.%s(%s)" % (f, lit(a))), (f, a)))
    for c in ("PI", "E", "LN2", "LN10", "LOG2E", "LOG10E", "SQRT2", "SQRT1_2"):
        progs.append(("Math:const", "special", WRAP % ("Math." + c), None))
    return progs


def exact(f, *a):
    """High-precision value of a Math function via mpmath (None if not applicable)."""
    import mpmath as mp
    mp.mp.dps = 60
    x = [mp.mpf(v) for v in a]
    try:
        fn = {"sqrt": mp.sqrt, "sin": mp.sin, "cos": mp.cos, "tan": mp.tan, "asin": mp.asin, "acos": mp.acos, "atan": mp.atan, "log": mp.log, "exp": mp.exp,
              "cbrt": mp.cbrt, "log2": lambda v: mp.log(v, 2), "log10": mp.log10, "expm1": mp.expm1, "log1p": mp.log1p, "sinh": mp.sinh, "cosh": mp.cosh,
              "tanh": mp.tanh, "asinh": mp.asinh, "acosh": mp.acosh, "atanh": mp.atanh, "pow": lambda u, v: mp.power(u, v), "atan2": mp.atan2,
              "hypot": mp.hypot}.get(f)
        if fn is None:
            return None
        if f == "cbrt" and x[0] < 0:
            v = -mp.cbrt(-x[0])
        else:
            v = fn(*x)
        if isinstance(v, mp.mpc) or mp.isnan(v):
            return None
        return v
    except Exception:
        return None


def ulp_err(got_bits, exact_val):
    import mpmath as mp
    if got_bits == "nan":
        return None
    g = struct.unpack(">d", bytes.fromhex(got_bits))[0]
    if math.isinf(g):
        return None
    gm = mp.mpf(g)
    if g == 0:
        u = mp.mpf(5e-324)
    else:
        u = mp.mpf(math.ulp(g))
    return abs(gm - exact_val) / u


def w_live_math(case, opts):
    from vf import engine as E
    ctx = E.new_context()
    names = ctx.eval("Object.keys(Math)")
    return {"names": [n for n in names if ctx.eval("typeof Math[%s]" % json.dumps(n)) == "function" and n != "random"]}


def main(ctx):
    from vf.common import ensure_deps
    ensure_deps()
    rng = random.Random(ctx.seed)
    fixed = random.Random(1818)
    if not have_node():
        ctx.inconclusive_because("reference_unavailable: node missing")
        return
    ep, np_ = engine_pool(), node_pool()
    try:
        live = ep.map({"mod": "checks.C18", "fn": "w_live_math"}, [{}], batch=1, timeout=60)[0]["names"]
        ds = doubles(fixed, 120 if ctx.quick else 6000) + doubles(rng, 60 if ctx.quick else 3000)[-180 if ctx.quick else -9000:]
        ds = list(dict.fromkeys([struct.pack(">d", d) for d in ds]))
        ds = [struct.unpack(">d", b)[0] for b in ds]
        fprogs = format_progs(ds)
        strs = numeric_strings(fixed, 200 if ctx.quick else 6000) + numeric_strings(rng, 100 if ctx.quick else 3000)
        strs = list(dict.fromkeys(strs))
        pprogs = parse_progs(strs)
        mprogs = math_progs(live, rng, 40 if ctx.quick else 1500)
        allp = [p[1] for p in fprogs] + [p[1] for p in pprogs] + [p[2] for p in mprogs]
        pairs = diff.run_progs(ep, np_, allp, per=600)
    finally:
        ep.close(); np_.close()
    rec = open(ctx.record_path, "w") if getattr(ctx, "record_path", None) else None
    fam_stats = {}
    idx = 0

    def fam(k, bad):
        st = fam_stats.setdefault(k, [0, 0])
        st[0] += 1
        st[1] += bad
    for (kind, src) in fprogs + pprogs:
        e, n = pairs[idx]
        idx += 1
        ctx.count()
        ok = n is not None and "ret" in e and "ret" in n and e["ret"] == n["ret"]
        if not ok and kind in ("parseInt", "Number.parseInt") and n is not None and "ret" in e and "ret" in n:
            # beyond 2^53 ECMAScript lets parseInt approximate (radix not a power of two, or > 20 digits): 1 ulp accepted
            try:
                ev, nv = e["ret"][2][1], n["ret"][2][1]
                a = struct.unpack(">d", bytes.fromhex(ev[1]))[0]
                b = struct.unpack(">d", bytes.fromhex(nv[1]))[0]
                # (V8 accumulates in doubles for radixes that are not powers of two and lands a few ulps off the correctly
                #  rounded value; the specification calls the result implementation-approximated there)
                ok = abs(a) > 2 ** 53 and abs(a - b) <= 8 * math.ulp(b)
            except Exception:
                pass
        fam(kind.split(":")[0], 0 if ok else 1)
        if ok:
            ctx.nontrivial(src)
            continue
        if n is None:
            continue
        cid = h(src)
        oh = diff.obs_hash(e)
        if ctx.known_cell(cid, oh):
            continue
        if rec:
            rec.write(json.dumps({"cid": cid, "obs": oh, "kind": kind, "src": src, "eng": diff.eng_key(e), "ref": n}) + "\n")
        ctx.violation(("number-text" if (kind, src) in () else kind.split(":")[0], short_why(e, n)), {"case": src, "engine": diff.eng_key(e), "reference": n})
    uncertain = 0
    ulp_checked = 0
    worst = 0.0
    for (kind, mode, src, spec) in mprogs:
        e, n = pairs[idx]
        idx += 1
        ctx.count()
        if n is None:
            continue
        prob = None
        if mode == "special" or spec is None:
            if not ("ret" in e and "ret" in n and e["ret"] == n["ret"]):
                # allow 1 ulp on finite non-special results of transcendental functions
                prob = "differs from the reference at a special point"
                try:
                    ev, nv = e["ret"][2][1], n["ret"][2][1]
                    if ev[0] == "d" and nv[0] == "d" and "nan" not in (ev[1], nv[1]):
                        a = struct.unpack(">d", bytes.fromhex(ev[1]))[0]
                        b = struct.unpack(">d", bytes.fromhex(nv[1]))[0]
                        if math.isfinite(a) and math.isfinite(b) and a != 0 and b != 0 and abs(a - b) <= math.ulp(b) and kind.split(":")[1] not in (
                                "abs", "floor", "ceil", "round", "trunc", "sign", "fround", "clz32", "min", "max", "imul", "sqrt", "const"):
                            prob = None
                except Exception:
                    pass
        else:
            try:
                ev = e["ret"][2][1]
                nv = n["ret"][2][1]
            except Exception:
                ev = nv = None
            ex = exact(*spec)
            if ev is None or ev[0] != "d":
                prob = "did not return a number: %r" % (diff.eng_key(e),)
            elif ex is not None:
                ue = ulp_err(ev[1], ex)
                un = ulp_err(nv[1], ex) if nv and nv[0] == "d" else None
                if un is not None and un > 1:
                    uncertain += 1
                elif ue is None or ue > 1:
                    prob = "more than 1 ulp from the exact value (%s ulp)" % (None if ue is None else float(ue))
                else:
                    ulp_checked += 1
                    worst = max(worst, float(ue))
            elif not ("ret" in n and e["ret"] == n["ret"]):
                prob = "differs from the reference"
        fam(kind, 1 if prob else 0)
        if prob is None:
            ctx.nontrivial(src)
            continue
        cid = h(src)
        oh = diff.obs_hash(e)
        if ctx.known_cell(cid, oh):
            continue
        if rec:
            rec.write(json.dumps({"cid": cid, "obs": oh, "kind": kind, "src": src, "eng": diff.eng_key(e), "ref": n, "why": prob}) + "\n")
        ctx.violation((kind, prob.split("(")[0][:50]), {"case": src, "engine": diff.eng_key(e), "reference": n, "problem": prob})
    if rec:
        rec.close()
    ctx.cov["rule"] = ("doubles: powers of 2 and 10 across the exponent range with neighbours, notation thresholds, halfway cases, subnormals, 2^53 "
                       "neighbours, random bit patterns and short decimals x {+'', String, JSON, join, toString(radix), toFixed, toPrecision, "
                       "toExponential with 15 digit arguments}; numeric strings from the StringNumericLiteral grammar + junk + mutations x "
                       "{Number, unary +, *1, -0, parseFloat, parseInt x 16 radixes, isNaN/isFinite}; every function on the live Math object x "
                       "special-value grid (pairs for binary functions) + random arguments within 1 ulp of mpmath; non-trivial = agreeing cases")
    ctx.cov["doubles"] = len(ds)
    ctx.cov["numeric_strings"] = len(strs)
    ctx.cov["math_functions_live"] = live
    ctx.cov["families_[cases,disagreements_incl_known]"] = fam_stats
    ctx.cov["ulp_checked"] = ulp_checked
    ctx.cov["worst_ulp_error_seen"] = worst
    ctx.cov["reference_uncertain_dropped"] = uncertain
    ctx.sample(fprogs[50][1])
    ctx.sample(pprogs[70][1])
    ctx.sample(mprogs[90][2])
    ctx.assumptions += ["toString(radix != 10) of non-integers is implementation-approximated in ECMAScript and not judged",
                        "node's Math results at non-special points are only a cross-check: the bound is 1 ulp from mpmath's 60-digit value"]


def short_why(e, n):
    if "err" in e:
        return "host-exception:" + str(e["err"].get("cls")) if e["err"].get("kind") == "host" else "js-error"
    try:
        if e["ret"][2][0] != n["ret"][2][0]:
            return "throws-vs-returns"
    except Exception:
        pass
    return "value"
