"""C19 — JSON.parse and JSON.stringify implement the JSON/ECMAScript contract.

Monitors: node differential (typed deep compare) on parse of grammar texts and near-miss texts (with a
catchability probe: the rejection must arrive in script try/catch as a SyntaxError), on stringify of JSON values
and of script values that are not JSON-representable at some position (cycles must raise a catchable
TypeError); and the two round-trip laws checked inside the engine alone: parse(stringify(v)) structurally equals v,
stringify(parse(t)) is the canonical text.
"""
import json
import random
import re

from vf import diff
from vf.common import h
from vf.runner import engine_pool, have_node, node_pool

NUMS = ["0", "-0", "1", "-1", "1.5", "1e21", "1e-7", "5e-324", "9007199254740993", "1E+2", "0.1", "123456789", "1e400", "-1e-400", "1.0", "100", "2.5e-5", "0e0", "-0.0"]
# integral doubles beyond 2^53 (the shortest round-trip digits are fewer than the exact expansion), neighbours of the 1e21 switch to
# exponent notation, long fractions, many-digit texts: the canonical text is ECMAScript's Number::toString
NUMS += ["18446744073709551616", "1152921504606847000", "999999999999999900000", "999999999999999999999", "1000000000000000000000", "100000000000000000000", "123456789012345680000",
         "9007199254740992", "9007199254740994", "36028797018963968", "72057594037927936", "4611686018427387904", "9223372036854775807", "-9223372036854775808", "295147905179352830000",
         "1e17", "1.5e17", "12345678901234567890", "98765432109876543210", "-18446744073709552000", "4.35e20", "0.000001", "0.0000001", "123456.789e3", "1.7976931348623157e308", "2.2250738585072014e-308",
         "4.9e-324", "0.30000000000000004", "1e-6", "1e-5", "123e-20", "0.1e1", "5e-1", "1.00000000000000011102230246251565", "3.141592653589793238462643383279"]
# many-digit texts (the grammar has no length limit): integers, fractions and exponents across the host's conversion limits
NUMS += ["1" * 26, "9" * 310, "1" * 4300, "1" * 4301, "-" + "9" * 5000, "1" * 8192, "0." + "0" * 400 + "1", "1." + "5" * 5000, "1e" + "0" * 50 + "5", "1" + "0" * 400 + "e-400", "-0." + "0" * 4400, "12" * 2200 + ".5e-4400"]
STRS = ['""', '"a"', '"\\n"', '"\\""', '"\\\\"', '"\\/"', '"\\u0041"', '"\\u00e9"', '"é"', '"\\ud83d\\ude00"', '"😀"', '"\\ud800"', '"\\u0000"', '"\\b\\f\\r\\t"', '"\\u2028"',
        '"a\\u0001b"', '"__proto__"', '"\x7f"', '"</script>"']
WS = ["", " ", "\n", "\t", "\r", " \n\t\r "]


def gen_text(rng, d):
    w = lambda: rng.choice(WS) if rng.random() < 0.3 else ""
    r = rng.random()
    if d <= 0 or r < 0.4:
        k = rng.random()
        if k < 0.35:
            return w() + rng.choice(NUMS) + w()
        if k < 0.7:
            return w() + rng.choice(STRS) + w()
        return w() + rng.choice(["true", "false", "null"]) + w()
    if r < 0.7:
        return w() + "[" + ",".join(gen_text(rng, d - 1) for _ in range(rng.randint(0, 4))) + (w() if rng.random() < 0.5 else "") + "]" + w()
    items = []
    for _ in range(rng.randint(0, 4)):
        # integer-like keys are left out: the engine (like the MicroQuickJS it follows, and as its own test-suite asserts)
        # keeps insertion order for them, where ECMAScript/node would move them first
        key = rng.choice(STRS + ['"k"', '"a"', '"x0"', '"k10"', '"b"', '"length"', '"-1"', '"01"', '"1.5"'])
        items.append(w() + key + w() + ":" + gen_text(rng, d - 1))
    return w() + "{" + ",".join(items) + (w() if not items else "") + "}" + w()


def mutate(rng, t):
    k = rng.randrange(12)
    if not t:
        return "x"
    i = rng.randrange(len(t))
    if k == 0:
        return t[:i]
    if k == 1:
        return t[:i] + t[i + 1:]
    if k == 2:
        return t[:i] + rng.choice(",:]}[{\"'") + t[i:]
    if k == 3:
        return t.replace('"', "'", 1)
    if k == 4:
        return t.replace("]", ",]", 1) if "]" in t else t + ","
    if k == 5:
        return t.replace("}", ",}", 1) if "}" in t else t + "}"
    if k == 6:
        return t + rng.choice([" x", "]", "}", ",", "1", "//c", "/*c*/"])
    if k == 7:
        return t.replace(":", " ", 1) if ":" in t else "+" + t
    if k == 8:
        return t.replace("true", "True", 1).replace("null", "NULL", 1)
    if k == 9:
        return t[:i] + "\n" + t[i:] if '"' in t else t
    if k == 10:
        return t[:i] + rng.choice(["NaN", "Infinity", "-Infinity", "undefined", "01", ".5", "1.", "+1", "0x10", "1e", "\\", "\t", "\x00", "\x0b", " "]) + t[i:]
    return rng.choice(["", " ", "{", "[", '"', '"abc', "{\"a\"}", "{\"a\":}", "[,]", "[1,,2]", "{,}", "nul", "tru", "-", "- 1", "1 2", "[1 2]", "{\"a\":1 \"b\":2}", "{a:1}",
                       "\ufeff1", "'a'", "\"\\x41\"", "\"\\u12\"", "\"\\'\"", "\"\t\"", "[" * 30 + "]" * 30, "[" * 31 + "]" * 30, "\"\\ud800\"", "1e1000", "-", "[-]", "--1"])


VALUE_SRC = [
    "undefined", "null", "true", "0", "-0", "NaN", "Infinity", "-Infinity", "1e21", "1e-7", "0.1", "9007199254740993", "5e-324", "'s'", "'é\\n\\\"\\\\\\u2028\\ud800😀\\u0001'",
    "function () {}", "[]", "{}", "[undefined, function () {}, NaN, null, -0]", "({a: undefined, b: function () {}, c: NaN, d: null, e: -0, f: [undefined]})",
    "({b: 1, a: 2, k1: 'x', k0: 'y', c: {z: 1, y: 2}})", "[[], [[]], {}]", "({'': 1, ' ': 2, 'a b': 3, '\\n': 4})", "new Error('m')", "/re/g", "Math", "JSON", "[new Int8Array(2)].length",
    "({get g() { return 5; }, d: 1})", "Object.create({inherited: 1})", "(function () { var o = Object.create(null); o.x = 1; return o; })()", "(function () { return arguments; })(1, 2)",
    "[1, 'two', [3, {four: 4}]]", "({toJSON: function () { return 'TJ'; }})", "({a: {toJSON: function (k) { return k + '!'; }}})", "'\\u007f\\u0080\\u00ff\\uffff'", "({a: [1, {b: [2, {c: [3]}]}]})",
    "true && {x: true, y: false}", "[1.5, 2.25, -3.125e-7, 1e300]", "({'__proto__': 1}).constructor === Object", "String('x')",
]
CYCLES = ["var o = {}; o.self = o; o", "var a = []; a.push(a); a", "var o = {a: {b: {}}}; o.a.b.c = o; o", "var a = [1, {x: null}]; a[1].x = a; a", "var o = {}; var p = {o: o}; o.p = p; [o, p]",
          "var shared = {v: 1}; [shared, shared, {s: shared}]",
          # shared but acyclic (a DAG is not a cycle): arrays and objects reachable twice, diamonds, sharing below a sibling
          "var a = [1, 2]; [a, a]", "var a = [1, 2]; ({x: a, y: a})", "var a = []; [a, [a], {k: a}, a]", "var o = {}; var a = [o, o]; [a, a, o]",
          "var leaf = [0]; var l = {p: leaf}, r = {p: leaf}; ({l: l, r: r, both: [l, r]})", "var a = [1]; var b = [a, a]; var c = [b, b]; [c, c]",
          "var a = [1]; var o = {a: a}; o.b = o.a; o.c = [o.a, {d: o.a}]; o", "var e = {}; var a = [e]; a.push(a[0]); a.push([a[0]]); a",
          "var a = [1, 2]; var cyc = {a: a, b: a}; cyc.self = cyc; cyc", "var a = [1]; a.push([a]); [a]"]


def dag_value(rng):
    """Statements building a value in which arrays/objects are shared (reachable along several paths), sometimes with one back
    edge (a genuine cycle): stringify must serialise every acyclic value and reject exactly the cyclic ones."""
    n = rng.randint(2, 6)
    lines = []
    for i in range(n):
        lines.append("var n%d = %s;" % (i, rng.choice(["[]", "{}", "[%d]" % i, "{v: %d}" % i])))
    for i in range(1, n):
        for _ in range(rng.randint(1, 3)):
            tgt = rng.randrange(i)          # edges go from later to earlier nodes only: acyclic by construction
            lines.append("if (Array.isArray(n%d)) { n%d.push(n%d); } else { n%d['e' + Object.keys(n%d).length] = n%d; }" % (i, i, tgt, i, i, tgt))
    if rng.random() < 0.25:
        a, b2 = sorted(rng.sample(range(n), 2))
        lines.append("if (Array.isArray(n%d)) { n%d.push(n%d); } else { n%d.back = n%d; }" % (a, a, b2, a, b2))     # a back edge: may close a cycle
    lines.append("return [n%d, n%d];" % (n - 1, rng.randrange(n)))
    return " ".join(lines)


def main(ctx):
    rng = random.Random(ctx.seed)
    fixed = random.Random(1919)
    if not have_node():
        ctx.inconclusive_because("reference_unavailable: node missing (round-trip laws alone do not decide acceptance)")
        return
    texts = []
    n = 6000 if ctx.quick else 60000
    for i in range(n):
        r = fixed if i % 2 == 0 else rng
        texts.append(gen_text(r, r.randint(0, 4)))
    texts += [t for t in NUMS + STRS] + ["[" * k + "]" * k for k in (1, 5, 30)] + ["{\"a\":" * 20 + "1" + "}" * 20]
    # every control character, DEL, NBSP, LS/PS, BOM, surrogate edges - as a value and as a key, spelled as an escape
    # (raw control characters are not valid JSON text; the near-miss family spells some of them raw)
    for cp in list(range(0x20)) + [0x22, 0x2f, 0x5c, 0x7f, 0x80, 0x9f, 0xa0, 0xad, 0x2028, 0x2029, 0xfeff, 0xd7ff, 0xd800, 0xdbff, 0xdc00, 0xdfff, 0xe000, 0xfffe, 0xffff]:
        texts.append('"\\u%04x"' % cp)
        texts.append('{"k\\u%04x":["\\u%04xz"]}' % (cp, cp))
    near = []
    for i in range(n):
        r = fixed if i % 2 == 0 else rng
        near.append(mutate(r, r.choice(texts)))
    texts = list(dict.fromkeys(texts))
    near = list(dict.fromkeys(near))
    PROBE = ("(function () { var T = %s; try { var v = JSON.parse(T); return ['ok', v, JSON.stringify(v), JSON.stringify(JSON.parse(JSON.stringify(v))) === JSON.stringify(v)]; } "
             "catch (e) { return ['threw', e && e.name, e instanceof SyntaxError]; } })()")
    progs = [("parse", PROBE % json.dumps(t)) for t in texts] + [("near-miss", PROBE % json.dumps(t)) for t in near]
    SPROBE = "(function () { try { var v = (function () { %s })(); var t = JSON.stringify(v); return ['ok', typeof t, t]; } catch (e) { return ['threw', e && e.name, e instanceof TypeError]; } })()"
    for src in VALUE_SRC:
        progs.append(("stringify", SPROBE % ("return " + src + ";")))
        progs.append(("stringify-nested", SPROBE % ("return [" + src + ", {k: " + src + "}];")))
    for src in CYCLES:
        body = src.rsplit(";", 1)
        progs.append(("cycle", SPROBE % (body[0] + "; return " + body[1] + ";")))
    # stringify of parsed random values (value-level), extra arguments ignored/unsupported are probed separately
    for t in texts[: (1500 if ctx.quick else 8000)]:
        progs.append(("stringify-value", "(function () { try { return JSON.stringify(JSON.parse(%s)); } catch (e) { return ['threw', e && e.name]; } })()" % json.dumps(t)))
    for i in range(300 if ctx.quick else 6000):
        r = fixed if i % 2 == 0 else rng
        progs.append(("shared-structure", SPROBE % dag_value(r)))
    # what parse builds are ordinary arrays and objects: the same script operations afterwards give the same keys, values and text
    OPS = ["o.zz = 1;", "delete o[K];", "o[K] = 'again';", "delete o[K]; o[K] = 'moved';", "Object.defineProperty(o, 'acc', {get: function () { return 7; }, enumerable: true, configurable: true});",
           "Object.defineProperty(o, K, {get: function () { return 'G'; }, set: function (v) { }, enumerable: true, configurable: true});", "Object.assign(o, {m: 1, zz: 2});",
           "Object.defineProperty(o, 'dv', {value: [1], writable: true, enumerable: true, configurable: true});", "o.n1 = {x: o[K]};", "for (var q in o) { o[q] = [o[q]]; }",
           "Object.keys(o).forEach(function (q) { if (q !== K) { delete o[q]; } });", "a.push(o);", "a.length = 0;", "a[0] = 'x';", "a.reverse();", "a.sort();", "a.unshift(null);", "a.splice(0, 1, 'sp');",
           "a.x = 1;", "o.arr = a; a = o.arr;", "o.hasOwnProperty = 1;", "o['constructor'] = 2;", "o.length = 3;"]
    OBJ_PROBE = ("(function () { var v; try { v = JSON.parse(%s); } catch (e) { return 'rejected'; } var o = null, a = null;\n"
                 "(function find(x) { if (x === null || typeof x !== 'object') { return; } if (Array.isArray(x)) { if (a === null) { a = x; } x.forEach(find); } else { if (o === null) { o = x; } for (var k in x) { find(x[k]); } } })(v);\n"
                 "if (o === null) { o = {}; } if (a === null) { a = []; } var K = Object.keys(o)[0]; if (K === undefined) { K = 'nokey'; }\n"
                 "try { %s } catch (e) { return ['op-threw', e && e.name]; }\n"
                 "var fi = []; for (var k2 in o) { fi.push(k2); }\n"
                 "function text(x) { try { return JSON.stringify(x); } catch (e) { return 'threw:' + e.name; } }\n"
                 "return [text(v), text(o), Object.keys(o), fi, Object.values(o).length, text(a), a.length, K in o, Object.prototype.hasOwnProperty.call(o, K), o.acc, typeof o.zz]; })()")
    for i in range(1200 if ctx.quick else 20000):
        r = fixed if i % 2 == 0 else rng
        t = r.choice(texts[: len(texts) // 2]) if r.random() < 0.5 else gen_text(r, r.randint(1, 3))
        if "__proto__" in t:
            continue
        ops = " ".join(r.choice(OPS) for _ in range(r.randint(1, 4)))
        progs.append(("parsed-value-ordinary", OBJ_PROBE % (json.dumps(t), ops)))
    progs += [("args", "JSON.stringify({a: [1, {b: 2}]}, null, 2)"), ("args", "JSON.stringify({a: 1, b: 2}, ['a'])"), ("args", "JSON.stringify({a: 1}, function (k, v) { return typeof v === 'number' ? v + 1 : v; })"),
              ("args", "JSON.parse('{\"a\": 1}', function (k, v) { return typeof v === 'number' ? v * 2 : v; }).a"), ("args", "JSON.stringify('x', null, '--')"), ("args", "JSON.stringify([1], null, 20).length"),
              ("args", "JSON.stringify()"), ("args", "(function () { try { return JSON.parse(); } catch (e) { return e.name; } })()"), ("args", "JSON.parse(' 1 ')"), ("args", "JSON.parse(1)"),
              ("args", "JSON.parse(null)"), ("args", "JSON.parse(true)"), ("args", "JSON.parse('\"x\"')"), ("args", "JSON.parse([1])"), ("args", "typeof JSON.parse('{}').hasOwnProperty")]
    ep, np_ = engine_pool(), node_pool()
    try:
        pairs = diff.run_progs(ep, np_, [p[1] for p in progs], per=300)
    finally:
        ep.close(); np_.close()
    rec = open(ctx.record_path, "w") if getattr(ctx, "record_path", None) else None
    fams = {}
    accepted = rejected = 0
    for (kind, src), (e, n) in zip(progs, pairs):
        ctx.count()
        st = fams.setdefault(kind, [0, 0])
        st[0] += 1
        if n is None:
            continue
        ok = "ret" in e and "ret" in n and e["ret"] == n["ret"]
        if not ok and "ret" in e and "ret" in n and INTKEY.search(src):
            # integer-like keys: the engine keeps insertion order by design (see gen_text); judge such texts up to key order
            ok = unordered(e["ret"]) == unordered(n["ret"])
        if ok:
            try:
                tag = e["ret"][2][0][1]
                if tag == "ok":
                    accepted += 1
                    if kind in ("parse", "near-miss") and e["ret"][2][3] != ["b", True]:
                        ok = False      # round-trip law stringify(parse(stringify(v))) === stringify(v)
                elif tag == "threw":
                    rejected += 1
            except Exception:
                pass
        if ok:
            ctx.nontrivial(src)
            continue
        st[1] += 1
        cid = h(src)
        oh = diff.obs_hash(e)
        if ctx.known_cell(cid, oh):
            continue
        if rec:
            rec.write(json.dumps({"cid": cid, "obs": oh, "kind": kind, "src": src, "eng": diff.eng_key(e), "ref": n}) + "\n")
        ctx.violation(("json", kind, why(e, n)), {"case": src[:900], "engine": diff.eng_key(e), "reference": n})
    if rec:
        rec.close()
    if accepted == 0 or rejected == 0:
        ctx.inconclusive_because("workload did not produce both accepted and rejected texts")
    ctx.cov["rule"] = ("JSON texts from the grammar (all whitespace placements, escape forms, boundary numbers, surrogates) and single-fault near-misses "
                       "through a parse probe that records acceptance, the built value, its canonical text, a round-trip law and - on "
                       "rejection - name and instanceof SyntaxError as seen by script catch; script values incl. non-representable ones and "
                       "cycles through a stringify probe; compared with node; non-trivial = agreeing cases")
    ctx.cov["texts"] = len(texts)
    ctx.cov["near_misses"] = len(near)
    ctx.cov["accepted"] = accepted
    ctx.cov["rejected_and_caught"] = rejected
    ctx.cov["families_[cases,disagreements_incl_known]"] = fams
    ctx.sample(texts[11])
    ctx.sample(near[11])
    ctx.sample(VALUE_SRC[19])
    ctx.assumptions += ["node v20 JSON is the reference"]


INTKEY = re.compile(r'\\"(?:0|[1-9][0-9]*)\\"(?:\s|\\[ntr])*:')     # in the program text the JSON text is a string literal


def unordered(v):
    """Typed encoding with object entries sorted and canonical JSON texts dropped (they spell the key order)."""
    if isinstance(v, list) and v:
        if v[0] == "o":
            return ["o", sorted((k, json.dumps(unordered(x))) for k, x in v[2])]
        if v[0] == "a":
            return ["a", [unordered(x) for x in v[2]]]
        if v[0] == "s" and v[1][:1] in "{[":
            return ["s", "<json text>"]
    return v


def why(e, n):
    if "err" in e:
        return "host-exception:" + str(e["err"].get("cls")) if e["err"].get("kind") == "host" else "uncatchable-js-error:" + str(e["err"].get("name"))
    try:
        a, b = e["ret"][2][0], n["ret"][2][0]
        if a != b:
            return "accepts-vs-rejects"
    except Exception:
        pass
    return "value/text"
