"""C20 — regex state and regex-driven string methods follow the lastIndex protocol.

Monitors:
  1. explicit state machine (Python) for RegExpBuiltinExec - ToLength(lastIndex), global/sticky gate, search from
     lastIndex or 0, reset to 0 on failure, advance to the end on success, sticky matches only there, non-global
     ignores and preserves - parameterised by the engine's own stateless matcher as the "earliest match from i /
     exactly at i" oracle, so the protocol is judged apart from matcher questions (C09);
  2. node differential on the same histories and on match / replace / replaceAll / split / search with patterns
     from the regex generator, a replacement-template grammar, function replacers and a limit grid, reading
     lastIndex after every call.
"""
import itertools
import json
import random

from vf import diff, rxgen
from vf.common import h
from vf.runner import engine_pool, have_node, node_pool

PATTERNS = ["a", "a*", "(?:)", "^a", "a|", "(a)(b)?", "\\b", "b+?", "(?=a)", "a$"]
FLAGS = ["", "g", "y", "gy", "gi", "gm", "i", "yi"]
SUBJECTS = ["", "a", "aa", "ba", "aba", "Ab\na"]
SET_VALUES = ["0", "1", "2", "3", "4", "-1", "1.5", '"2"', "NaN", "undefined", "null", "Infinity", '"x"', "true"]

ENC = ("function EN(m) { return m === null ? null : [m.index].concat(Array.prototype.slice ? [] : []).concat(LIST(m)); }\n"
       "function LIST(m) { var r = []; for (var i = 0; i < m.length; i++) { r.push(m[i] === undefined ? null : m[i]); } return r; }\n")


def history_script(p, f, ops):
    lines = [ENC, "var re = new RegExp(%s, %s); var out = [];" % (json.dumps(p), json.dumps(f))]
    for op in ops:
        if op[0] == "exec":
            lines.append("out.push(['exec', EN(re.exec(%s)), re.lastIndex]);" % json.dumps(op[1]))
        elif op[0] == "test":
            lines.append("out.push(['test', re.test(%s), re.lastIndex]);" % json.dumps(op[1]))
        elif op[0] == "set":
            lines.append("re.lastIndex = %s; out.push(['set', null, re.lastIndex]);" % op[1])
        else:
            lines.append("out.push(['read', null, re.lastIndex]);")
    lines.append("out")
    return "\n".join(lines)


# ---------------- Python model of RegExpBuiltinExec (worker side: needs the engine's stateless matcher) ----------
def w_model(case, opts):
    """case = {items:[{p,f,ops}]}: run the abstract state machine; returns per-step [kind, result, lastIndex-enc]."""
    import math
    from microjs.regex import RegExp
    from microjs.values import UNDEFINED, NULL, to_number
    out = []
    lit = {"NaN": float("nan"), "undefined": UNDEFINED, "null": NULL, "Infinity": float("inf"), "true": True}
    for it in case["items"]:
        p, f, ops = it["p"], it["f"], it["ops"]
        base = RegExp(p, "".join(c for c in f if c in "ims"))
        glob, sticky = "g" in f, "y" in f
        last = 0          # the script-visible value (may be any JS value)
        steps = []

        def tolength(v):
            n = to_number(v)
            if isinstance(n, float):
                if math.isnan(n) or n <= 0:
                    return 0
                if math.isinf(n):
                    return 2 ** 53 - 1
                return int(n)
            return max(n, 0)

        def encv(v):
            if v is UNDEFINED:
                return ["u"]
            if v is NULL:
                return ["n"]
            if isinstance(v, bool):
                return ["b", v]
            if isinstance(v, str):
                return ["s", v]
            import struct
            fl = float(v)
            return ["d", "nan" if fl != fl else struct.pack(">d", fl).hex()]

        def do_exec(s):
            nonlocal last
            start = tolength(last) if (glob or sticky) else 0
            if start > len(s):
                if glob or sticky:
                    last = 0
                return None
            vm = base._create_vm()
            m = vm.match(s, start) if sticky else vm.search(s, start)
            if m is None:
                if glob or sticky:
                    last = 0
                return None
            if glob or sticky:
                last = m.index + len(m[0])
            return [m.index] + [m[i] for i in range(len(m))]
        for op in ops:
            if op[0] == "exec":
                r = do_exec(op[1])
                steps.append(["exec", r, encv(last)])
            elif op[0] == "test":
                r = do_exec(op[1])
                steps.append(["test", r is not None, encv(last)])
            elif op[0] == "set":
                src = op[1]
                if src in lit:
                    last = lit[src]
                elif src.startswith('"'):
                    last = json.loads(src)
                else:
                    last = float(src) if "." in src else int(src)
                steps.append(["set", None, encv(last)])
            else:
                steps.append(["read", None, encv(last)])
        out.append(steps)
    return {"res": out}


def decode_steps(ret):
    """engine/node typed return value of a history script -> [[kind, result, lastIndex-enc], ...]"""
    if not ret or ret[0] != "a":
        return None
    steps = []
    for st in ret[2]:
        kind = st[2][0][1]
        res = plain(st[2][1])
        steps.append([kind, res, st[2][2]])
    return steps


def plain(e):
    t = e[0]
    if t in ("n", "u"):
        return None
    if t == "b":
        return e[1]
    if t == "s":
        return e[1]
    if t == "d":
        import struct
        return "NaN" if e[1] == "nan" else int(struct.unpack(">d", bytes.fromhex(e[1]))[0])
    if t == "a":
        return [plain(x) for x in e[2]]
    return e


TEMPLATES = ["x", "", "$$", "$&", "$`", "$'", "$1", "$2", "$01", "$10", "$0", "$", "$$$&", "[$1|$2]", "$<n>", "a$&b$`c$'d", "$1$1", "\\$&", "$9", "$00"]
REPLACERS = ["function (m) { return '<' + m + '>'; }", "function (m, a, b) { return typeof a + ':' + typeof b; }",
             "function () { return '$&'; }", "function () { L.push([].slice ? arguments.length : 0); return 'r'; }",
             "function (m) { return undefined; }", "function (m) { return 7; }",
             # built-in functions and constructors are functions too
             "String", "Number", "Boolean", "Array", "Math.abs", "parseInt", "JSON.stringify", "String.fromCharCode", "isNaN"]
LIMITS = ["undefined", "0", "1", "2", "-1", "NaN", "1.9", "4294967297", '"2"', "Infinity"]


def method_progs(rng, n_random):
    progs = []
    pats = [(p, f) for p in ["a", "b*", "(a)|(b)", "(?:)", "a|", "^", "$", "(b)?a", "\\b", "[ab]+", "(a)(b)?(c)?", "a(?=b)", "x*"] for f in ["", "g", "y", "gy", "gi", "m", "gm"]]
    subs = ["", "a", "ab", "aab", "abab", "ba ab", "Ab\naB", "aaa", "cab"]
    pre = "var L = []; "
    for (p, f) in pats:
        lit = "new RegExp(%s, %s)" % (json.dumps(p), json.dumps(f))
        for s in subs:
            S = json.dumps(s)
            base = pre + "var re = %s; re.lastIndex = %%s; var S = %s; " % (lit, S)
            for li in ("0", "1", "5"):
                b = base % li
                progs.append(("match", b + "var r = S.match(re); [r === null ? null : LIST(r), r && r.index, re.lastIndex]"))
                progs.append(("search", b + "[S.search(re), re.lastIndex]"))
                progs.append(("split", b + "[S.split(re), re.lastIndex]"))
                if li == "0":
                    for t in TEMPLATES:
                        progs.append(("replace", b + "[S.replace(re, %s), re.lastIndex]" % json.dumps(t)))
                        if "g" in f:
                            progs.append(("replaceAll", b + "[S.replaceAll(re, %s), re.lastIndex]" % json.dumps(t)))
                    for fn in REPLACERS:
                        progs.append(("replace-fn", b + "[S.replace(re, %s), re.lastIndex, L]" % fn))
                    for lim in LIMITS:
                        progs.append(("split-limit", b + "[S.split(re, %s), re.lastIndex]" % lim))
                else:
                    progs.append(("replace", b + "[S.replace(re, '[$&]'), re.lastIndex]"))
            if "g" not in f:
                progs.append(("replaceAll-nonglobal", pre + "var out; try { out = %s.replaceAll(%s, 'x'); } catch (e) { out = e.name; } out" % (S, lit)))
        # string patterns
    for s in subs:
        S = json.dumps(s)
        for pat in ['"a"', '""', '"ab"', '"."', "undefined", "null", "1"]:
            for t in TEMPLATES[:12]:
                progs.append(("replace-str", "[%s.replace(%s, %s), %s.replaceAll(%s, %s)]" % (S, pat, json.dumps(t), S, pat, json.dumps(t))))
            progs.append(("split-str", "[%s.split(%s), %s.split(%s, 2), %s.match(%s) && LIST(%s.match(%s)), %s.search(%s)]" % (S, pat, S, pat, S, pat, S, pat, S, pat)))
    for _ in range(n_random):
        p = rxgen.random_pattern(rng, depth=rng.choice([1, 2]))
        f = rng.choice(["", "g", "y", "gi", "gm", "gy"])
        s = json.dumps(rxgen.random_subject(rng, 8))
        lit = "new RegExp(%s, %s)" % (json.dumps(p), json.dumps(f))
        k = rng.random()
        b = pre + "var re = %s; re.lastIndex = %d; var S = %s; " % (lit, rng.choice([0, 0, 1, 3]), s)
        if k < 0.3:
            progs.append(("rnd-replace", b + "[S.replace(re, %s), re.lastIndex]" % json.dumps(rng.choice(TEMPLATES))))
        elif k < 0.45:
            progs.append(("rnd-replace-fn", b + "[S.replace(re, %s), re.lastIndex, L]" % rng.choice(REPLACERS)))
        elif k < 0.65:
            progs.append(("rnd-split", b + "[S.split(re, %s), re.lastIndex]" % rng.choice(LIMITS)))
        elif k < 0.85:
            progs.append(("rnd-match", b + "var r = S.match(re); [r === null ? null : LIST(r), re.lastIndex]"))
        else:
            progs.append(("rnd-search", b + "[S.search(re), re.lastIndex]"))
    return [(k, ENC + "try { " + "" + src.replace("var out; try", "var out; try") + " } catch (E) { ['THREW', E && E.name] }" if False else ENC + src) for k, src in progs]


def gen_histories(ctx, rng):
    hs = []
    ops_alpha = []
    for s in SUBJECTS[:4]:
        ops_alpha.append(("exec", s))
        ops_alpha.append(("test", s))
    for v in SET_VALUES:
        ops_alpha.append(("set", v))
    ops_alpha.append(("read",))
    # exhaustive short histories for a small core
    core_p, core_s = ["a", "a*"], ["aa", "ba"]
    small_ops = [("exec", "aa"), ("exec", "ba"), ("test", "aa"), ("test", ""), ("set", "1"), ("set", "3"), ("set", "-1"), ("set", "1.5"), ("set", '"2"'),
                 ("set", "NaN"), ("set", "undefined"), ("read",)]
    L = 3 if ctx.quick else 4
    for p in core_p:
        for f in FLAGS[:6]:
            for n in range(1, L + 1):
                for ops in itertools.product(small_ops, repeat=n):
                    hs.append({"p": p, "f": f, "ops": [list(o) for o in ops]})
    fixed = random.Random(2020)
    nrand = 3000 if ctx.quick else 150000
    for i in range(nrand):
        r = fixed if i % 2 == 0 else rng
        hs.append({"p": r.choice(PATTERNS), "f": r.choice(FLAGS), "ops": [list(r.choice(ops_alpha)) for _ in range(r.randint(2, 6))]})
    return hs


def main(ctx):
    rng = random.Random(ctx.seed)
    hs = gen_histories(ctx, rng)
    scripts = [history_script(x["p"], x["f"], [tuple(o) for o in x["ops"]]) for x in hs]
    fixed = random.Random(2021)
    mprogs = method_progs(fixed, 1500 if ctx.quick else 40000) + [x for x in method_progs(rng, 800 if ctx.quick else 20000) if x[0].startswith("rnd")]
    ep = engine_pool()
    np_ = node_pool() if have_node() else None
    if not np_:
        ctx.inconclusive_because("reference_unavailable: node missing (the state-machine model still decides the histories)")
    try:
        hpairs = diff.run_progs(ep, np_, scripts, per=300)
        models = ep.map({"mod": "checks.C20", "fn": "w_model"}, [{"items": hs[i:i + 500]} for i in range(0, len(hs), 500)], batch=1, timeout=900)
        mpairs = diff.run_progs(ep, np_, [p[1] for p in mprogs], per=300)
    finally:
        ep.close()
        if np_:
            np_.close()
    flatm = []
    for r in models:
        flatm += (r or {}).get("res", [])
    rec = open(ctx.record_path, "w") if getattr(ctx, "record_path", None) else None
    steps_checked = 0
    for x, src, (e, n), model in zip(hs, scripts, hpairs, flatm):
        ctx.count()
        es = decode_steps(e.get("ret")) if "ret" in e else None
        prob = None
        if es is None:
            prob = "history script failed on the engine: %r" % (diff.eng_key(e),)
        else:
            for i, (a, b) in enumerate(zip(es, model)):
                steps_checked += 1
                if a != b:
                    prob = "step %d (%s): engine %r, state machine %r" % (i, x["ops"][i], a[1:], b[1:])
                    break
            if prob is None and n is not None and "ret" in n and n["ret"] != e["ret"]:
                ns = decode_steps(n["ret"])
                for i, (a, b) in enumerate(zip(es, ns or [])):
                    if a != b:
                        prob = "step %d (%s): engine %r, reference %r" % (i, x["ops"][i], a[1:], b[1:])
                        break
        if prob is None:
            ctx.nontrivial(h(src))
            continue
        cid = h(["hist", x])
        oh = diff.obs_hash(e)
        if ctx.known_cell(cid, oh):
            continue
        if rec:
            rec.write(json.dumps({"cid": cid, "obs": oh, "kind": "history", "p": x["p"], "f": x["f"], "ops": x["ops"], "why": prob}) + "\n")
        ctx.violation(("lastIndex-protocol", x["f"], prob.split(":")[0].split("(")[1][:12] if "(" in prob else "script"),
                      {"case": x, "problem": prob, "script": src[-600:], "monitor": "RegExpBuiltinExec state machine / node"})
    fams = {}
    for (kind, src), (e, n) in zip(mprogs, mpairs):
        ctx.count()
        fams[kind] = fams.get(kind, 0) + 1
        if n is None:
            continue
        if "ret" in e and "ret" in n and e["ret"] == n["ret"]:
            ctx.nontrivial(h(src))
            continue
        if "err" in n and "err" in e and e["err"].get("kind") == "js":
            continue    # both throw (e.g. pattern outside ECMAScript syntax): not this property's subject
        if "err" in n and n.get("err") == "SyntaxError":
            continue
        cid = h(["m", src])
        oh = diff.obs_hash(e)
        if ctx.known_cell(cid, oh):
            continue
        if rec:
            rec.write(json.dumps({"cid": cid, "obs": oh, "kind": kind, "src": src[len(ENC):], "eng": diff.eng_key(e), "ref": n}) + "\n")
        ctx.violation(("regex-string-method", kind), {"case": src[len(ENC):], "engine": diff.eng_key(e), "reference": n})
    if rec:
        rec.close()
    ctx.cov["rule"] = ("histories: exhaustive up to length %d over 12 operations x 6 flag sets x 2 patterns, + seeded random histories (length 2-6) over "
                       "{exec, test, lastIndex = 14 kinds of value, read} x 8 flag sets x 10 patterns x 6 subjects, each judged by the "
                       "RegExpBuiltinExec state machine and by node; string methods match/search/split/replace/replaceAll x patterns x flags x "
                       "subjects x 20 replacement templates x 6 function replacers x 10 limits x starting lastIndex, + random; "
                       "non-trivial = agreeing cases" % (3 if ctx.quick else 4))
    ctx.cov["histories"] = len(hs)
    ctx.cov["history_steps_checked_against_state_machine"] = steps_checked
    ctx.cov["string_method_programs"] = len(mprogs)
    ctx.cov["families"] = fams
    ctx.sample({"history": hs[500]})
    ctx.sample({"method_program": mprogs[40][1][len(ENC):]})
    ctx.assumptions += ["the stateless matcher answers (earliest match from i / exactly at i) come from the engine's own RegexVM.search/match (judged by C09)"]
