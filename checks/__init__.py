"""Registry of claimed checks (drives tools/mkmanifest.py)."""

REGISTRY = {
    "C03": {
        "text": "On 38 receiver kinds (every primitive type, plain/null-prototype objects, arrays, all nine typed arrays, ArrayBuffer, functions, arrows, bound functions, native and prototype methods, constructors, regexes, match results, errors incl. engine-raised ones, arguments, Math/JSON/console, eval, an exposed host function) x 16 access forms (read, computed read, typeof, call, write-then-read, delete, in, for-in, keys, stringify, instanceof, new, use as prototype, hasOwnProperty, descriptor, literal key) x every name of the host vocabulary (introspected at run time from every engine class and instance plus the attribute names of Python object/type/function/code/str/int/float/list/dict/..., about 900 names) each observation runs on a fresh context with an operand-stack type sanitizer in the step hook, and must equal the observation made with a never-used fresh name (names with an ECMAScript meaning on that receiver, asked of node, are excluded). Random and closure-heavy programs run under the same sanitizer; generated programs with id-tagged exposed-function call sites are checked offline: invocations = executed call sites, in order, arguments are JS values, and 30 non-calling access forms never invoke.",
        "design_ref": "DESIGN.md 3/C03",
        "note": "The sanitizer sees values that reach the operand stack (anything a script can hold passes through it). Whitelisted callables: exposed functions, callables of the initial global graph, native closures defined inside the microjs package. node is used only to decide which names are ECMAScript-defined on a receiver.",
        "technique": "operand-stack type sanitizer at the step hook + fresh-name metamorphic oracle over receiver x form x host-vocabulary + offline invocation-log checker",
    },
    "C11": {
        "text": "JSON-like Python values (boundary numbers incl. NaN, infinities, -0.0, 2^53 neighbours, 2^70; strings incl. NUL and non-BMP; empty containers; int/float/bool/None/tuple keys; shared sub-objects; nesting depth 60; seeded random structures) go through set/get/eval(name) and are compared with the stated mapping under typed deep equality; every returned container and the object passed to set is then mutated and the value read again (aliasing monitor) and container identities of successive results must be disjoint. The same space written as script literals is evaluated and converted. Argument vectors of length 0-6 over every JS value kind reach an exposed callable through six call forms (plain, method, call, apply, bind, nested) and are recorded by order, count and typed value; return values of every Python kind are inspected from the script side. An icontract postcondition on the real Context._to_python requires JSON-like output.",
        "design_ref": "DESIGN.md 3/C11",
        "note": "Python-side oracles only. Tuples/bytes/sets are documented as unsupported and judged only for 'no exception, no host object'. Cyclic inputs are out of scope (conversion is recursive by design).",
        "technique": "boundary monitors: typed round-trip oracle + aliasing (mutation/identity) monitor + argument recorder in exposed callables + icontract postcondition on Context._to_python",
    },
    "C12": {
        "text": "Fault enumeration: for seeded scripts made of one-commit statements (assignments, function values, callbacks, regexes, try/catch, indirect eval, new Function, built-in mutation, sort, JSON, accessors, closures, switch, for-of) the engine's own TimeLimitError/MemoryLimitError is raised from the step hook at EVERY interpreter step, and RegexTimeoutError at each of the first 60 regex steps; after each fault the observable state must equal the state after some whole number k of statements (k never decreasing), the error class must be the injected limit error, Context._current_vm must be cleared, a health script must pass and later evaluations must equal those of a twin context that executed the first k statements without error. Histories of 14 operation kinds (define/assign/function/throw/throw mid-callback/syntax error/loop forever/recurse forever/set/get/indirect eval/new Function/object mutation/delete) over three contexts with different limits are checked against a dictionary model after every step on every context. Isolation: 36 built-in mutations in context A must leave the structural fingerprint of context B's whole global graph, its probe results and object identities untouched.",
        "design_ref": "DESIGN.md 3/C12",
        "level": "fault_enumeration",
        "note": "Faults are injected at the loop heads where the engine itself raises limit errors (the hook sits before _check_limits), so every injected fault is one the engine could produce there. Fault points are exhaustive per script; scripts and histories are seeded samples.",
        "technique": "fault injection at every interpreter step through the hook + abstract-model checker over operation histories + twin-context metamorphic oracle + global-graph fingerprint for isolation",
    },
    "C14": {
        "text": "33 shape templates (straight-line code, loops, if/else, switch by bodies and by case count, try/finally, literals, calls, parameters, constants, globals, locals, captured variables, functions, operator/ternary chains, loops that start late in the function) each with a closed-form result are compiled and run at scales n swept across the operand boundary (255/256), the jump boundary (65535/65536 bytes, placed per template) and beyond. Deciding monitors: closed-form oracle; icontract postconditions on the real Compiler._emit/_patch_jump (bytes written encode the operand/target exactly - masking or wrap is the truncation the property forbids); a decode monitor in the VM step hook (instruction pointer always on an instruction boundary of the running function); only a JSError naming the size, raised before any instruction runs, counts as refusal.",
        "design_ref": "DESIGN.md 3/C14",
        "note": "Scales are sampled; the contracts are attached to the compiler class in the worker before any compilation and their evaluation counts are reported (zero = inconclusive).",
        "technique": "runtime contracts (icontract) on the real bytecode emitter + decode invariant at the VM step hook + closed-form result oracle across encoding boundaries",
    },
    "C15": {
        "text": "Closure-heavy generated programs (many locals/parameters, captured and pass-through variables over 3-4 levels, named function expressions, arguments, arrows, reused names), random programs and the repository's corpus scripts are evaluated on fresh contexts in separate processes under 16 (quick) / 48 (thorough) PYTHONHASHSEED values, and in one process in 5 shuffled orders, after polluter programs on other contexts, with another virtual-clock origin, and repeated; digests of typed outcome + ordered log must be identical. The check also fingerprints each compiled function's locals/free_vars/cell_vars order and is inconclusive unless some programs really had different slot layouts across seeds (so the seed dimension was exercised).",
        "design_ref": "DESIGN.md 3/C15",
        "note": "Programs using Math.random/Date.now are excluded. Self-consistency only: no reference needed.",
        "technique": "metamorphic runtime monitor: same source across hash seeds (separate processes), batch orders, process histories and clock origins, with slot-layout exercise evidence",
    },
    "C07": {
        "text": "38 throw sites (throw of every value type, runtime TypeError/ReferenceError/RangeError/SyntaxError from operators and raising built-ins, throws inside code run by built-ins: callbacks, comparators, accessors, conversions, eval, call/apply) x 12 handler placements (same function, caller, across one and two native frames, finally-only, rethrow, throw from catch, throw/return from finally, mid-expression, in a loop, none), the try-ish cells of the skeleton grid in every expression context, and seeded random instrumented try trees are run on the real engine. Deciding monitors: node differential on the ordered log and outcome; an offline exactly-once checker over E/C/F/L events per try activation (needs no reference); error-object probes (instanceof constructor and Error, name, message type); absolute and shifted lineNumber/columnNumber for thrown and runtime errors; uncaught throws must surface as JSError whose text contains the thrown message/primitive.",
        "design_ref": "DESIGN.md 3/C07",
        "note": "Trusts node v20 for unwinding order; messages of engine-generated errors are not compared, only class, name and catchability.",
        "technique": "runtime differential monitor (node reference) + offline exactly-once checker over recorded try/catch/finally event logs + shift metamorphic oracle on error locations",
    },
    "C02": {
        "text": "Recursion of 36 shapes (direct, mutual, methods, constructors, every callback-taking built-in, accessors, conversions, call/apply/bind, eval) under memory limits from 5 kB to 10 MB must end in MemoryLimitError while a hook tracks the accounted usage (never above M), call depth and host recursion depth. Bounded bodies - the exhaustive control-flow skeleton grid (construct x exit kind x enclosing construct x expression context, inside a function and inline) - run N times with a marker each iteration whose Python side reads the live VM: operand-stack, call-stack, handler-stack and native depth must be identical at every iteration and back to empty after the loop; N up to 1000 (quick) / 30000 (thorough) under M = 20 kB must succeed; an icontract postcondition on VM.run checks all stacks empty on return.",
        "design_ref": "DESIGN.md 3/C02",
        "note": "Heap data is not accounted by the engine (documented) and not judged. Trusts Context._current_vm to be the VM executing the marker call.",
        "technique": "invariant-at-a-hook monitors on live VM stacks (residue series at loop iterations, accounted usage vs limit) + outcome oracle + icontract postcondition on VM.run",
    },
    "C05": {
        "text": "An exhaustive skeleton grid {enclosing construct (18 kinds incl. none)} x {construct (loops, for-in/of, switch with default in every position, labelled block, every try/catch/finally shape, code in catch and in finally)} x {exit kind: fall out, break, continue, labelled break/continue, return, throw from statement/mid-expression/callee/callback} x {expression context of the call: statement, operand, argument, array element, property value, condition, callee} plus closure-sharing, evaluation-order and completion-value probes and seeded random programs are run on the real engine; ordered log (every operand position logs a unique id), completion value and uncaught error are compared with node. Held = agreement on what was run; exploration over a bounded program space.",
        "design_ref": "DESIGN.md 3/C05",
        "note": "Trusts node v20 strict mode as reference for the implemented subset; generators avoid constructs covered by open findings (top-level var use-before-assignment). The observe_at 'static stack-depth consistency' is monitored dynamically by C02's residue sanitizer on executed paths only.",
        "technique": "runtime differential monitor (node reference) on logged evaluation order and outcomes over an exhaustive control-flow skeleton grid + seeded random programs",
    },
    "C01": {
        "text": "Every combination of non-terminating core (loops, recursion shapes, catastrophic regexes through every regex-consuming API, nested eval chains) x place where script code can run (33 placements: functions, constructors, every callback-taking built-in, accessors, conversions, call/apply/bind, eval, new Function) x try/catch/finally wrapper x deadline is run on the real engine under a virtual clock driven by the step hooks. Invariants asserted inside the hooks: no VM executes more than 1100 instructions, and no regex loop more than 300 (main) / 12000 (with lookarounds) consecutive steps, after the deadline; at the eval boundary the exception is exactly TimeLimitError, nothing runs or logs after the stop was raised, and a normal return proves END was logged. A real-clock tier ties ticks to wall time. Held = on the executions produced; T and operand sizes are sampled.",
        "design_ref": "DESIGN.md 3/C01",
        "note": "Trusts the step hooks to be called once per interpreter/regex step (they sit before the engine's own limit check) and the engine to read time only through time.monotonic; single native operations on huge operands are out of the property's scope.",
        "technique": "invariant-at-a-hook monitor under a virtual clock (step-counted deadline overrun) + outcome oracle at the eval boundary + real-clock timing tier",
    },
    "C06": {
        "text": "Every cell of the operand grid x operator table (about 10^5 one-expression programs, enumerated completely), every compound/update operator on eight assignment-target forms, and seeded random expression trees are evaluated on the real engine and compared bit-exactly (type, value, sign of zero, NaN) with node; integral operands are additionally run in int and float host representation and must agree. Held = no disagreement on what was run; exploration, not proof: operands outside the grid are not covered.",
        "design_ref": "DESIGN.md 3/C06",
        "note": "Trusts node v20 (V8) as the ECMAScript reference for operators on primitives; ** is compared with a 1-ulp tolerance because ECMAScript calls it implementation-approximated and V8's pow is itself not correctly rounded.",
        "technique": "runtime differential monitor (node reference) over an exhaustive operand x operator grid + int/float representation metamorphic oracle",
    },
}

_ALL = ["C%02d" % i for i in range(1, 21)]
NOT_APPLICABLE = [
    {"property_id": p, "reason": "check not built yet in this phase (planned in DESIGN.md section 3); not claimed until its monitor exists and is silent on the unchanged tree"}
    for p in _ALL if p not in REGISTRY
]
