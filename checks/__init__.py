"""Registry of claimed checks (drives tools/mkmanifest.py)."""

REGISTRY = {
    "C06": {
        "text": "Every cell of the operand grid x operator table (about 10^5 one-expression programs, enumerated completely), every compound/update operator on eight assignment-target forms, and seeded random expression trees are evaluated on the real engine and compared bit-exactly (type, value, sign of zero, NaN) with node; integral operands are additionally run in int and float host representation and must agree. Held = no disagreement on what was run; exploration, not proof: operands outside the grid are not covered.",
        "design_ref": "DESIGN.md 3/C06",
        "note": "Trusts node v20 (V8) as the ECMAScript reference for operators on primitives; ** is compared with a 1-ulp tolerance because ECMAScript calls it implementation-approximated and V8's pow is itself not correctly rounded.",
        "technique": "runtime differential monitor (node reference) over an exhaustive operand x operator grid + int/float representation metamorphic oracle",
    },
}

_ALL = ["C%02d" % i for i in range(1, 21)]
NOT_APPLICABLE = [
    {"property_id": p, "reason": "check not built yet in this phase (planned in DESIGN.md section 3); not claimed until its monitor exists and is silent on the unchanged tree"}
    for p in _ALL if p not in REGISTRY
]
