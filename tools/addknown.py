#!/venv/bin/python
"""Dev tool (never run by checks): add recorded failing cells to known/<pid>.cells.json under a finding id.
usage: tools/addknown.py C05 <finding-id> <recfile> [--where 'python expr over r']"""
import json, sys, os
pid, fid, rec = sys.argv[1:4]
where = None
if "--where" in sys.argv:
    where = sys.argv[sys.argv.index("--where") + 1]
path = os.path.join(os.path.dirname(os.path.dirname(os.path.abspath(__file__))), "known", pid + ".cells.json")
data = json.load(open(path)) if os.path.exists(path) else {}
cells = data.setdefault(fid, {})
n = 0
for line in open(rec):
    r = json.loads(line)
    if where and not eval(where, {"r": r, "json": json}):
        continue
    cells[r["cid"]] = r["obs"]
    n += 1
json.dump(data, open(path, "w"), indent=0, sort_keys=True)
print(f"{pid}/{fid}: +{n} cells (total {len(cells)})")
