import json, collections, re, sys
rows=[json.loads(l) for l in open(sys.argv[1])]
c=collections.Counter(); ex={}
for r in rows:
    fam=r['fam']
    m=re.match(r'^\((.*?)\) (\S+) \((.*)\)$', r['src'])
    op=m.group(2) if (m and fam in('bin','meta')) else (r['src'].split('(')[0] if fam=='un' else '')
    kind=r['eng'][0]+(':'+str(r['eng'][1]) if r['eng'][0] in('host','js','fail','abort') else '')
    k=(fam,op,kind)
    c[k]+=1; ex.setdefault(k,[]).append((r['src'][:90],r['eng'] if r['eng'][0]!='ret' else r['eng'][1],r['ref']))
for k,v in sorted(c.items(), key=lambda x:-x[1])[:int(sys.argv[2]) if len(sys.argv)>2 else 60]:
    print(v,k, ex[k][0], ex[k][len(ex[k])//2][:1])
