#!/bin/bash
# tools/coverage_gaps.sh [repo-dir] [Cxx ...] -- dev tool: run the quick checks with line coverage of the engine switched on in the workers and print,
# per engine file, the line ranges no workload reached.  Guides workload widening; not a check, not a verdict.
cd "$(dirname "$(readlink -f "$0")")/.."
repo=${1:-/repo}; shift
pids=${*:-$(/venv/bin/python -c "import json;print(' '.join(c['property_id'] for c in json.load(open('MANIFEST.json'))['checks']))")}
out=/tmp/verif_cov; rm -rf $out; mkdir -p $out
for p in $pids; do
  VERIF_REPO=$repo VERIF_COV=$out ./check $p --tier quick 2>&1 | tail -1
done
cd $out && /venv/bin/python -m coverage combine -q --data-file=$out/.coverage $out >/dev/null 2>&1
/venv/bin/python -m coverage report --data-file=$out/.coverage -m --include="$repo/src/microjs/*" 2>&1 | tail -40
