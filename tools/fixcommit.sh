#!/bin/bash
# usage: tools/fixcommit.sh "fix: message"  -- runs the repo test-suite (hooks off) and commits if green
cd /repo || exit 2
out=$(timeout 900 /venv/bin/python -m pytest -q -p no:cacheprovider -n 12 2>&1 | tail -3)
echo "$out"
if echo "$out" | grep -qE "^484 passed, 8 xfailed, 3 xpassed"; then
  git add -A && git commit -qm "$1" && git log --oneline | head -1
else
  echo "TESTS CHANGED - not committed"; exit 1
fi
