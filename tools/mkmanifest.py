#!/venv/bin/python
"""Regenerate MANIFEST.json from the table below and validate it against the schema."""
import json, os, sys
ROOT = os.path.dirname(os.path.dirname(os.path.abspath(__file__)))
sys.path.insert(0, ROOT)
from checks import REGISTRY, NOT_APPLICABLE

HOOK_COMMITS = ["db488f4"]
m = {
    "version": 1,
    "setup_cmd": "/venv/bin/python -m vf.setup",
    "hooks": {
        "guard": "MICROJS_VERIF",
        "enable": "checks import /repo/src/microjs in subprocess workers with MICROJS_VERIF=1 in the environment (pure Python, nothing to build); src/microjs/_verif.py holds the two callbacks the interpreter loops call when the guard is on",
        "baseline_off_cmd": "cd /repo && env -u MICROJS_VERIF /venv/bin/python -m pytest -q -p no:cacheprovider --timeout=900",
        "source_commits": HOOK_COMMITS,
        "add_only": True,
    },
    "engines": [
        {"name": "vf", "path": "vf/", "serves_properties": sorted(REGISTRY),
         "kind_free_text": "runtime-monitoring harness: subprocess workers running the real engine with step hooks (virtual clock, stack/type sanitizers, fault injection), node v20 as executable ECMAScript reference, Python models, offline log checkers"},
    ],
    "checks": [],
    "notes": "Exit codes: 0 held on everything explored (KNOWN-FINDING lines for listed findings), 1 with VIOLATION line(s), 2 inconclusive (a deciding monitor observed nothing). See DESIGN.md.",
    "not_applicable": NOT_APPLICABLE,
}
for pid in sorted(REGISTRY):
    r = REGISTRY[pid]
    m["checks"].append({
        "property_id": pid,
        "quick_cmd": f"./check {pid} --tier quick",
        "thorough_cmd": f"./check {pid} --tier thorough",
        "evidence_file": f"evidence/{pid}.json",
        "replay_cmd_template": f"./check {pid} --replay {{path}}",
        "engine": "vf",
        "level_claimed": {"category": r.get("level", "exploration"), "text": r["text"], "design_ref": r["design_ref"]},
        "level_note": r["note"],
        "technique": r["technique"],
    })
sys.path.insert(0, os.path.join(ROOT, ".deps"))
from jsonschema import Draft202012Validator
schema = json.load(open("/root/.vp/MANIFEST.schema.json"))
errs = list(Draft202012Validator(schema).iter_errors(m))
if errs:
    print("INVALID", [e.message for e in errs]); sys.exit(1)
json.dump(m, open(os.path.join(ROOT, "MANIFEST.json"), "w"), indent=1)
print("MANIFEST.json written:", len(m["checks"]), "checks,", len(NOT_APPLICABLE), "not applicable")
