#!/bin/bash
# tools/mutant.sh <patch> <Cxx> [tier]   -- apply patch to /repo, run check, always revert
patch=$(readlink -f "$1"); pid=$2; tier=${3:-quick}
cd /verif
if ! git -C /repo diff --quiet; then echo "/repo dirty"; exit 3; fi
git -C /repo apply "$patch" || { echo "patch does not apply"; exit 3; }
./check "$pid" --tier "$tier" > /tmp/mutant.out 2>&1; rc=$?
git -C /repo checkout -- . 
grep -E "VIOLATION|KNOWN|INCONCL|^\[" /tmp/mutant.out | head -8
echo "exit=$rc"
