#!/bin/bash
# tools/mutants_all.sh [Cxx ...|seeded|mutants] -- apply every kept mutant (mutants/<pid>/*.patch) and every seeded change
# (seeded/<id>/patch.diff, property taken from its meta.json) in turn to a scratch worktree of /repo's HEAD under /tmp (never to
# /repo itself; MUTANTS_WT names it, default /tmp/wt_mutants), run the named property's quick check against that tree
# (VERIF_REPO), revert; prints one line per patch: caught / MISSED / DOES-NOT-APPLY / NEUTRALISED.  Several instances with
# different MUTANTS_WT and selections can run side by side; remove the worktree afterwards (git -C /repo worktree remove --force).
cd "$(dirname "$(readlink -f "$0")")/.."
wt=${MUTANTS_WT:-/tmp/wt_mutants}
if [ ! -d "$wt" ]; then git -C /repo worktree add -q --detach "$wt" HEAD || exit 3; fi
git -C "$wt" checkout -q -- .; git -C "$wt" checkout -q --detach "$(git -C /repo rev-parse HEAD)" || exit 3
sel=" $* "
run_one() {  # label pid patch
  local label=$1 pid=$2 abs; abs=$(readlink -f "$3")
  if ! git -C "$wt" apply --check "$abs" 2>/dev/null; then echo "$label: DOES-NOT-APPLY"; return; fi
  git -C "$wt" apply "$abs"
  out=$(VERIF_REPO=$wt VERIF_EVIDENCE_DIR=/tmp/mutants_evidence_$$ ./check "$pid" --tier quick 2>&1); rc=$?
  demo=""
  if [ $rc -eq 0 ] && [ -f "$(dirname "$abs")/demo.py" ]; then
    # not flagged: does the change still violate the property on the current tree at all? (its own demonstration decides)
    if (cd "$wt" && PYTHONPATH=$wt/src timeout 600 /venv/bin/python "$(dirname "$abs")/demo.py" >/dev/null 2>&1); then demo="demo-passes"; else demo="demo-fails"; fi
  fi
  git -C "$wt" checkout -q -- .
  if [ $rc -eq 1 ]; then echo "$label: caught by $pid ($(echo "$out" | grep -c VIOLATION) violation lines; first: $(echo "$out" | grep -m1 VIOLATION | sed 's/.*# //' | cut -c1-110))";
  elif [ $rc -eq 0 ] && [ "$demo" = "demo-passes" ]; then echo "$label: NEUTRALISED (applies, but its own demonstration no longer shows a violation on the current tree; $pid silent)";
  elif [ $rc -eq 0 ]; then echo "$label: MISSED by $pid"; else echo "$label: rc=$rc $(echo "$out" | tail -1)"; fi
}
if [ "$sel" = "  " ] || echo "$sel" | grep -q " mutants " || echo "$sel" | grep -qE " C[0-9]+ "; then
  for p in mutants/*/*.patch; do
    pid=$(basename "$(dirname "$p")")
    if echo "$sel" | grep -qE " C[0-9]+ " && ! echo "$sel" | grep -q " $pid "; then continue; fi
    run_one "mutants/$pid/$(basename "$p" .patch)" "$pid" "$p"
  done
fi
if [ "$sel" = "  " ] || echo "$sel" | grep -q " seeded " || echo "$sel" | grep -qE " C[0-9]+ "; then
  for d in seeded/*/; do
    id=$(basename "$d")
    pid=$(/venv/bin/python -c "import json,sys;print(json.load(open(sys.argv[1]))['property'])" "$d/meta.json")
    if echo "$sel" | grep -qE " C[0-9]+ " && ! echo "$sel" | grep -q " $pid "; then continue; fi
    run_one "seeded/$id" "$pid" "$d/patch.diff"
  done
fi
