#!/bin/bash
# tools/mutants_all.sh [Cxx ...|seeded|mutants] -- apply every kept mutant (mutants/<pid>/*.patch) and every seeded change
# (seeded/<id>/patch.diff, property taken from its meta.json) to /repo in turn, run the named property's quick check, revert;
# prints one line per patch: caught / MISSED / DOES-NOT-APPLY.  Run it only when nothing else is using /repo.
cd "$(dirname "$(readlink -f "$0")")/.."
if ! git -C /repo diff --quiet; then echo "/repo dirty"; exit 3; fi
sel=" $* "
run_one() {  # label pid patch
  local label=$1 pid=$2 abs; abs=$(readlink -f "$3")
  if ! git -C /repo apply --check "$abs" 2>/dev/null; then echo "$label: DOES-NOT-APPLY"; return; fi
  git -C /repo apply "$abs"
  out=$(./check "$pid" --tier quick 2>&1); rc=$?
  demo=""
  if [ $rc -eq 0 ] && [ -f "$(dirname "$abs")/demo.py" ]; then
    # not flagged: does the change still violate the property on the current tree at all? (its own demonstration decides)
    if (cd /repo && PYTHONPATH=/repo/src timeout 600 /venv/bin/python "$(dirname "$abs")/demo.py" >/dev/null 2>&1); then demo="demo-passes"; else demo="demo-fails"; fi
  fi
  git -C /repo checkout -- .
  if [ $rc -eq 1 ]; then echo "$label: caught by $pid ($(echo "$out" | grep -c VIOLATION) violation lines; first: $(echo "$out" | grep -m1 VIOLATION | sed 's/.*# //' | cut -c1-110))";
  elif [ $rc -eq 0 ] && [ "$demo" = "demo-passes" ]; then echo "$label: NEUTRALISED (applies, but its own demonstration no longer shows a violation on the current tree; $pid silent)";
  elif [ $rc -eq 0 ]; then echo "$label: MISSED by $pid"; else echo "$label: rc=$rc $(echo "$out" | tail -1)"; fi
}
if [ "$sel" = "  " ] || echo "$sel" | grep -q " mutants " || echo "$sel" | grep -qE " C[0-9]+ "; then
  for p in mutants/*/*.patch; do
    pid=$(basename "$(dirname "$p")")
    if echo "$sel" | grep -qE " C[0-9]+ " && ! echo "$sel" | grep -q " $pid "; then continue; fi
    run_one "mutants/$pid/$(basename "$p" .patch)" "$pid" "$p"
  done
fi
if [ "$sel" = "  " ] || echo "$sel" | grep -q " seeded " || echo "$sel" | grep -qE " C[0-9]+ "; then
  for d in seeded/*/; do
    id=$(basename "$d")
    pid=$(/venv/bin/python -c "import json,sys;print(json.load(open(sys.argv[1]))['property'])" "$d/meta.json")
    if echo "$sel" | grep -qE " C[0-9]+ " && ! echo "$sel" | grep -q " $pid "; then continue; fi
    run_one "seeded/$id" "$pid" "$d/patch.diff"
  done
fi
