#!/bin/bash
# tools/mutants_all.sh [Cxx ...] -- apply every kept mutant (mutants/<pid>/*.patch) and seeded change (seeded/*/patch.diff with meta.json "property")
# to /repo in turn, run the named property's quick check, revert; print one line per patch: caught / MISSED / does-not-apply
cd "$(dirname "$(readlink -f "$0")")/.."
if ! git -C /repo diff --quiet; then echo "/repo dirty"; exit 3; fi
sel="$*"
for p in mutants/*/*.patch; do
  pid=$(basename "$(dirname "$p")")
  if [ -n "$sel" ] && ! echo " $sel " | grep -q " $pid "; then continue; fi
  abs=$(readlink -f "$p")
  if ! git -C /repo apply --check "$abs" 2>/dev/null; then echo "$pid $(basename $p): DOES-NOT-APPLY"; continue; fi
  git -C /repo apply "$abs"
  out=$(./check "$pid" --tier quick 2>&1); rc=$?
  git -C /repo checkout -- .
  if [ $rc -eq 1 ]; then echo "$pid $(basename $p): caught ($(echo "$out" | grep -c VIOLATION) violation lines)"; 
  elif [ $rc -eq 0 ]; then echo "$pid $(basename $p): MISSED"; else echo "$pid $(basename $p): rc=$rc $(echo "$out" | tail -1)"; fi
done
