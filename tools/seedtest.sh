#!/bin/bash
# tools/seedtest.sh <round-letter> <worktree-prefix> <NN ...>  -- collect an agent's seeded_out into seeded/Cnn-<letter>/ and run the property's
# quick check against the agent's worktree (VERIF_REPO), leaving /repo alone
letter=$1; prefix=$2; shift 2
cd "$(dirname "$(readlink -f "$0")")/.."
for i in "$@"; do
  d=$prefix$i/seeded_out
  if [ ! -f $d/patch.diff ]; then echo "C$i-$letter: no patch yet"; continue; fi
  mkdir -p seeded/C$i-$letter; cp $d/patch.diff $d/demo.py $d/meta.json seeded/C$i-$letter/
  out=$(VERIF_REPO=$prefix$i ./check C$i --tier quick 2>&1); rc=$?
  echo "C$i-$letter rc=$rc $(echo "$out" | grep -c VIOLATION) viol | $(echo "$out" | tail -1)"
  echo "$out" | grep VIOLATION | head -2 | cut -c1-220
done
