#!/bin/bash
# tools/seedtest.sh <round-letter> <worktree-prefix> <NN ...>  -- collect an agent's seeded_out into seeded/Cnn-<letter>/, apply its patch.diff to a
# scratch worktree of /repo's HEAD under /tmp (never to /repo) and run the property's quick check against that worktree (VERIF_REPO)
letter=$1; prefix=$2; shift 2
cd "$(dirname "$(readlink -f "$0")")/.."
scratch=/tmp/wt_seedtest
if [ ! -d $scratch ]; then git -C /repo worktree add -q --detach $scratch HEAD || exit 3; fi
git -C $scratch checkout -q -- .; git -C $scratch checkout -q --detach "$(git -C /repo rev-parse HEAD)" || exit 3
for i in "$@"; do
  d=$prefix$i/seeded_out
  if [ ! -f $d/patch.diff ]; then echo "C$i-$letter: no patch yet"; continue; fi
  mkdir -p seeded/C$i-$letter; cp $d/patch.diff $d/demo.py $d/meta.json seeded/C$i-$letter/
  if ! git -C $scratch apply "$(readlink -f seeded/C$i-$letter/patch.diff)"; then echo "C$i-$letter: patch does not apply to HEAD"; continue; fi
  out=$(VERIF_REPO=$scratch VERIF_EVIDENCE_DIR=/tmp/seedtest_evidence ./check C$i --tier quick 2>&1); rc=$?
  git -C $scratch checkout -q -- .
  echo "C$i-$letter rc=$rc $(echo "$out" | grep -c VIOLATION) viol | $(echo "$out" | tail -1)"
  echo "$out" | grep VIOLATION | head -2 | cut -c1-220
done
