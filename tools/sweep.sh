#!/bin/bash
# tools/sweep.sh <tier> <seeds...>  -- run every registered check for each seed; print failures
tier=$1; shift
cd "$(dirname "$(readlink -f "$0")")/.."
pids=$(/venv/bin/python -c "import json;print(' '.join(c['property_id'] for c in json.load(open('MANIFEST.json'))['checks']))")
for s in "$@"; do
  for p in $pids; do
    out=$(VERIF_SEED=$s ./check $p --tier $tier 2>&1); rc=$?
    echo "seed=$s $p rc=$rc $(echo "$out" | tail -1)"
    if [ $rc -ne 0 ]; then echo "$out" | grep -E "VIOLATION|INCONCL" | head -5; fi
  done
done
