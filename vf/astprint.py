"""Harness-owned AST -> source printer (fully parenthesised expressions) and structural AST comparison
for the engine's parser (microjs.ast_nodes dataclasses).  Worker-side only (imports the engine)."""
import dataclasses
import json

from microjs import ast_nodes as A


def strip(node):
    """JSON-able structural view of an AST without source locations."""
    if isinstance(node, A.Node):
        d = {"_": type(node).__name__}
        for f in dataclasses.fields(node):
            if f.name == "loc" or (f.name == "shorthand" and type(node) is A.Property):
                continue   # shorthand is a spelling flag ({x} vs {x: x}), not part of the meaning
            d[f.name] = strip(getattr(node, f.name))
        return d
    if isinstance(node, list):
        return [strip(x) for x in node]
    if isinstance(node, float):
        if node != node:
            return "NaN"
        return repr(node)
    if isinstance(node, (str, int, bool)) or node is None:
        return node
    if isinstance(node, tuple):
        return [strip(x) for x in node]
    return repr(node)


def num(v):
    if isinstance(v, bool):
        return "true" if v else "false"
    if isinstance(v, int):
        return str(v)
    r = repr(v)
    if r in ("inf", "-inf", "nan"):
        return {"inf": "Infinity", "-inf": "-Infinity", "nan": "NaN"}[r]
    return r


def ident_ok(s):
    return isinstance(s, str) and s and (s[0].isalpha() or s[0] in "_$") and all(c.isalnum() or c in "_$" for c in s) and s.isascii()


class Printer:
    def expr(self, n):
        t = type(n)
        if t is A.NumericLiteral:
            return num(n.value)
        if t is A.StringLiteral:
            return json.dumps(n.value)
        if t is A.BooleanLiteral:
            return "true" if n.value else "false"
        if t is A.NullLiteral:
            return "null"
        if t is A.RegexLiteral:
            return "/" + n.pattern + "/" + n.flags
        if t is A.Identifier:
            return n.name
        if t is A.ThisExpression:
            return "this"
        if t is A.ArrayExpression:
            return "[" + ", ".join(self.expr(e) for e in n.elements) + "]"
        if t is A.ObjectExpression:
            return "({" + ", ".join(self.prop(p) for p in n.properties) + "})"
        if t is A.UnaryExpression:
            op = n.operator
            sp = " " if op.isalpha() else ""
            return "(" + op + sp + self.expr(n.argument) + ")"
        if t is A.UpdateExpression:
            return "(" + (n.operator + self.expr(n.argument) if n.prefix else self.expr(n.argument) + n.operator) + ")"
        if t in (A.BinaryExpression, A.LogicalExpression):
            return "(" + self.expr(n.left) + " " + n.operator + " " + self.expr(n.right) + ")"
        if t is A.ConditionalExpression:
            return "(" + self.expr(n.test) + " ? " + self.expr(n.consequent) + " : " + self.expr(n.alternate) + ")"
        if t is A.AssignmentExpression:
            return "(" + self.expr(n.left) + " " + n.operator + " " + self.expr(n.right) + ")"
        if t is A.SequenceExpression:
            return "(" + ", ".join(self.expr(e) for e in n.expressions) + ")"
        if t is A.MemberExpression:
            o = self.expr(n.object)
            if type(n.object) is A.NumericLiteral:
                o = "(" + o + ")"
            if n.computed:
                return o + "[" + self.expr(n.property) + "]"
            return o + "." + n.property.name
        if t is A.CallExpression:
            return self.expr(n.callee) + "(" + ", ".join(self.expr(a) for a in n.arguments) + ")"
        if t is A.NewExpression:
            return "(new (" + self.expr(n.callee) + ")(" + ", ".join(self.expr(a) for a in n.arguments) + "))"
        if t is A.FunctionExpression:
            name = " " + n.id.name if n.id else ""
            return "(function" + name + "(" + ", ".join(p.name for p in n.params) + ") " + self.stmt(n.body) + ")"
        if t is A.ArrowFunctionExpression:
            ps = "(" + ", ".join(p.name for p in n.params) + ")"
            if n.expression:
                return "(" + ps + " => " + self.expr(n.body) + ")"
            return "(" + ps + " => " + self.stmt(n.body) + ")"
        raise TypeError("expr " + t.__name__)

    def key(self, p):
        k = p.key
        if p.computed:
            return "[" + self.expr(k) + "]"
        if type(k) is A.Identifier:
            return k.name
        return self.expr(k)

    def prop(self, p):
        if p.kind in ("get", "set") and type(p.value) is A.FunctionExpression:
            f = p.value
            return p.kind + " " + self.key(p) + "(" + ", ".join(x.name for x in f.params) + ") " + self.stmt(f.body)
        if type(p.value) is A.FunctionExpression and getattr(p.value, "is_method", False):
            f = p.value     # method shorthand is a different kind of function (not a constructor): keep the spelling
            return self.key(p) + "(" + ", ".join(x.name for x in f.params) + ") " + self.stmt(f.body)
        return self.key(p) + ": " + self.expr(p.value)

    def stmt(self, n):
        t = type(n)
        if t is A.ExpressionStatement:
            e = self.expr(n.expression)
            if not e.startswith("("):
                e = "(" + e + ")"
            return e + ";"
        if t is A.BlockStatement:
            return "{ " + " ".join(self.stmt(s) for s in n.body) + " }"
        if t is A.EmptyStatement:
            return ";"
        if t is A.VariableDeclaration:
            return self.vardecl(n) + ";"
        if t is A.IfStatement:
            s = "if (" + self.expr(n.test) + ") " + self.block(n.consequent)
            if n.alternate is not None:
                s += " else " + self.block(n.alternate)
            return s
        if t is A.WhileStatement:
            return "while (" + self.expr(n.test) + ") " + self.block(n.body)
        if t is A.DoWhileStatement:
            return "do " + self.block(n.body) + " while (" + self.expr(n.test) + ");"
        if t is A.ForStatement:
            init = "" if n.init is None else (self.vardecl(n.init) if type(n.init) is A.VariableDeclaration else self.expr(n.init))
            return "for (" + init + "; " + ("" if n.test is None else self.expr(n.test)) + "; " + ("" if n.update is None else self.expr(n.update)) + ") " + self.block(n.body)
        if t in (A.ForInStatement, A.ForOfStatement):
            left = self.vardecl(n.left) if type(n.left) is A.VariableDeclaration else self.expr(n.left)
            kw = " in " if t is A.ForInStatement else " of "
            return "for (" + left + kw + self.expr(n.right) + ") " + self.block(n.body)
        if t is A.BreakStatement:
            return "break" + (" " + n.label.name if n.label else "") + ";"
        if t is A.ContinueStatement:
            return "continue" + (" " + n.label.name if n.label else "") + ";"
        if t is A.ReturnStatement:
            return "return" + (" " + self.expr(n.argument) if n.argument is not None else "") + ";"
        if t is A.ThrowStatement:
            return "throw " + self.expr(n.argument) + ";"
        if t is A.TryStatement:
            s = "try " + self.stmt(n.block)
            if n.handler is not None:
                s += " catch (" + n.handler.param.name + ") " + self.stmt(n.handler.body)
            if n.finalizer is not None:
                s += " finally " + self.stmt(n.finalizer)
            return s
        if t is A.SwitchStatement:
            cs = []
            for c in n.cases:
                head = "default:" if c.test is None else "case " + self.expr(c.test) + ":"
                cs.append(head + " " + " ".join(self.stmt(s) for s in c.consequent))
            return "switch (" + self.expr(n.discriminant) + ") { " + " ".join(cs) + " }"
        if t is A.LabeledStatement:
            return n.label.name + ": " + self.stmt(n.body)
        if t is A.FunctionDeclaration:
            return "function " + n.id.name + "(" + ", ".join(p.name for p in n.params) + ") " + self.stmt(n.body)
        raise TypeError("stmt " + t.__name__)

    def block(self, n):
        if type(n) is A.BlockStatement:
            return self.stmt(n)
        return "{ " + self.stmt(n) + " }"

    def vardecl(self, n):
        return n.kind + " " + ", ".join(d.id.name + ("" if d.init is None else " = " + self.expr(d.init)) for d in n.declarations)

    def program(self, n):
        return "\n".join(self.stmt(s) for s in n.body)


def unwrap_blocks(view):
    """The printer braces every sub-statement; compare modulo single-statement blocks in statement positions."""
    if isinstance(view, dict):
        v = {k: unwrap_blocks(x) for k, x in view.items()}
        for k in ("consequent", "alternate", "body"):
            x = v.get(k)
            if v.get("_") in ("IfStatement", "WhileStatement", "DoWhileStatement", "ForStatement", "ForInStatement", "ForOfStatement") \
                    and isinstance(x, dict) and x.get("_") == "BlockStatement" and len(x.get("body", [])) == 1:
                v[k] = x["body"][0]
        return v
    if isinstance(view, list):
        return [unwrap_blocks(x) for x in view]
    return view
