"""Per-check context: verdict bookkeeping, known findings, evidence, replay files."""
import json
import pathlib
import os
import re
import shlex
import sys

from .common import ROOT, Timer, ensure_deps, h

KNOWN_INDEX = ROOT / "known-findings.txt"


class Finding:
    def __init__(self, status, fields, raw):
        self.status = status          # open | fixed
        self.fields = fields
        self.raw = raw
        self.property = fields.get("property")
        self.id = fields.get("id")
        self.what = fields.get("what", "")
        self.match = fields.get("match", "")


def parse_known_index(path=KNOWN_INDEX):
    out = []
    if not path.exists():
        return out
    for line in path.read_text().splitlines():
        line = line.strip()
        if not line or line.startswith("#"):
            continue
        m = re.match(r"^(open|fixed):\s*(.*)$", line)
        if not m:
            continue
        status, rest = m.group(1), m.group(2)
        fields = {}
        try:
            toks = shlex.split(rest)
        except ValueError:
            toks = rest.split()
        for t in toks:
            if "=" in t:
                k, v = t.split("=", 1)
                fields.setdefault(k, v)
        out.append(Finding(status, fields, line))
    return out


class Ctx:
    """What a check module gets: ctx.tier, ctx.seed, ctx.violation(), ctx.known_*(), ctx.ev, ctx.finish()."""

    MAX_VIOL_LINES = 12

    def __init__(self, pid, tier, seed, level="exploration"):
        ensure_deps()
        self.pid, self.tier, self.seed, self.level = pid, tier, seed, level
        self.timer = Timer()
        self.violations = {}      # mechanism key -> replay dict (first witness)
        self.viol_count = 0
        self.inconclusive = []
        self.cov = {"evaluations": 0, "distinct_nontrivial": 0, "rule": "", "samples": []}
        self.assumptions = []
        self.known = [f for f in parse_known_index() if f.property == pid]
        self.open = {f.id: f for f in self.known if f.status == "open"}
        self.reproduced = {}      # finding id -> count
        self.cells = {}           # cid -> (finding id, obs hash)
        self.sites = {}           # site key -> finding id
        self._distinct = set()
        self._load_known_data()
        self.replay_dir = ROOT / "replays" / pid
        if self.replay_dir.exists():
            for f in self.replay_dir.glob("*.json"):   # witnesses of earlier runs are stale
                try:
                    f.unlink()
                except OSError:
                    pass
        self.quick = tier == "quick"

    # ---- known findings -------------------------------------------------
    def _load_known_data(self):
        p = ROOT / "known" / f"{self.pid}.cells.json"
        if p.exists():
            data = json.loads(p.read_text())
            for fid, cells in data.items():
                if fid not in self.open:
                    continue  # cells of findings that are not (or no longer) open suppress nothing
                for cid, obs in cells.items():
                    self.cells[cid] = (fid, obs)
        for f in self.open.values():
            if f.match.startswith("site:"):
                self.sites[f.match[5:]] = f.id

    def known_cell(self, cid, obs_hash):
        """True if (cid, observed outcome) is a listed finding; counts the reproduction."""
        ent = self.cells.get(cid)
        if ent and ent[1] == obs_hash:
            self.reproduced[ent[0]] = self.reproduced.get(ent[0], 0) + 1
            return True
        return False

    def known_site(self, key):
        fid = self.sites.get(key)
        if fid:
            self.reproduced[fid] = self.reproduced.get(fid, 0) + 1
            return True
        return False

    def known_repro(self, fid, n=1):
        """A pinned reproducer of finding fid reproduced."""
        if fid in self.open:
            self.reproduced[fid] = self.reproduced.get(fid, 0) + n
            return True
        return False

    def is_open(self, fid):
        return fid in self.open

    # ---- observations -----------------------------------------------------
    def count(self, n=1):
        self.cov["evaluations"] += n

    def nontrivial(self, key):
        """Register a distinct non-trivial case (key = structural hash / tuple)."""
        self._distinct.add(key if isinstance(key, (str, int, tuple)) else h(key))

    def sample(self, s, cap=8):
        if len(self.cov["samples"]) < cap:
            self.cov["samples"].append(s)

    def violation(self, key, replay):
        """Record a violation under a mechanism key (one VIOLATION line per key)."""
        self.viol_count += 1
        if key not in self.violations and len(self.violations) < 200:
            self.violations[key] = replay

    def inconclusive_because(self, reason):
        self.inconclusive.append(reason)

    # ---- finish -----------------------------------------------------------------
    def finish(self):
        from jsonschema import Draft202012Validator
        self.cov["distinct_nontrivial"] = len(self._distinct)
        self.cov["known_findings_reproduced"] = dict(self.reproduced)
        self.cov["known_findings_not_reproduced"] = sorted(set(self.open) - set(self.reproduced))
        ev = {
            "property_id": self.pid, "tier": self.tier, "seed": int(self.seed), "level": self.level,
            "coverage": self.cov, "assumptions": self.assumptions, "wall_s": self.timer.s(),
            "violations": self.viol_count,
        }
        if self.inconclusive:
            ev["coverage"]["inconclusive"] = self.inconclusive
        lines = []
        n = 0
        for key, rep in self.violations.items():
            self.replay_dir.mkdir(parents=True, exist_ok=True)
            path = self.replay_dir / f"{h([key, rep.get('case')], 10)}.json"
            path.write_text(json.dumps({"property": self.pid, "mechanism": str(key), "tier": self.tier,
                                        "seed": self.seed, **rep}, indent=1, ensure_ascii=True, default=str))
            if n < self.MAX_VIOL_LINES:
                lines.append(f"VIOLATION property={self.pid} replay={path.relative_to(ROOT)}  # {str(key)[:160]}")
            n += 1
        # (dev tools that run checks against deliberately broken scratch trees divert the evidence: evidence/ only ever holds
        # what a run against the registered tree observed)
        evdir = os.environ.get("VERIF_EVIDENCE_DIR")
        evp = (pathlib.Path(evdir) if evdir else ROOT / "evidence") / f"{self.pid}.json"
        evp.parent.mkdir(parents=True, exist_ok=True)
        schema = json.loads(open("/root/.vp/EVIDENCE.schema.json").read()) \
            if os.path.exists("/root/.vp/EVIDENCE.schema.json") else None
        text = json.dumps(ev, indent=1, ensure_ascii=True, default=str)
        ev2 = json.loads(text)
        problems = []
        if schema:
            problems = [e.message for e in Draft202012Validator(schema).iter_errors(ev2)]
        evp.write_text(text)
        for fid, cnt in sorted(self.reproduced.items()):
            f = self.open.get(fid)
            if f:
                print(f"KNOWN-FINDING: property={self.pid} {fid}: {f.what} [{cnt} reproduction(s) this run]")
        for fid in ev["coverage"]["known_findings_not_reproduced"]:
            print(f"note: known finding {self.pid}/{fid} did not reproduce in this run (no alarm)")
        for ln in lines:
            print(ln)
        if n > self.MAX_VIOL_LINES:
            print(f"... {n - self.MAX_VIOL_LINES} more distinct violation mechanisms (see replays/{self.pid}/)")
        print(f"[{self.pid}] tier={self.tier} seed={self.seed} evaluations={self.cov['evaluations']} "
              f"distinct_nontrivial={self.cov['distinct_nontrivial']} violations={self.viol_count} "
              f"wall={ev['wall_s']}s")
        if self.violations:
            sys.exit(1)
        if problems:
            print(f"INCONCLUSIVE property={self.pid} reason=evidence does not validate: {problems[:3]}")
            sys.exit(2)
        if self.inconclusive:
            print(f"INCONCLUSIVE property={self.pid} reason={'; '.join(self.inconclusive)[:400]}")
            sys.exit(2)
        sys.exit(0)
