"""Shared paths, dependency bootstrap, evidence and verdict plumbing."""
import hashlib
import json
import os
import subprocess
import sys
import time
from pathlib import Path

ROOT = Path(__file__).resolve().parent.parent
REPO = Path(os.environ.get("VERIF_REPO", "/repo"))
PY = os.environ.get("VERIF_PY", "/venv/bin/python")
DEPS = ROOT / ".deps"
WHEELS = "/opt/veriftools/wheels"
NCPU = min(16, os.cpu_count() or 4)
LEVELS = ("exploration", "fault_enumeration", "model_checking", "proof",
          "translation_validation", "other")


def ensure_deps():
    """Install icontract/jsonschema/mpmath beside the harness (offline, idempotent)."""
    marker = DEPS / ".ok"
    if not marker.exists():
        DEPS.mkdir(exist_ok=True)
        cmd = [PY, "-m", "pip", "install", "-q", "--no-index", "--find-links", WHEELS,
               "--target", str(DEPS), "icontract", "jsonschema", "mpmath"]
        env = dict(os.environ, PIP_NO_INDEX="1", PIP_DISABLE_PIP_VERSION_CHECK="1")
        r = subprocess.run(cmd, env=env, capture_output=True, text=True)
        if r.returncode != 0:
            sys.stderr.write("deps install failed:\n" + r.stdout + r.stderr)
        else:
            marker.write_text("ok")
    if str(DEPS) not in sys.path:
        sys.path.insert(0, str(DEPS))


def h(obj, n=12):
    """Stable short hash of a JSON-able object."""
    s = json.dumps(obj, sort_keys=True, ensure_ascii=True, separators=(",", ":"))
    return hashlib.sha1(s.encode()).hexdigest()[:n]


def child_env(extra=None):
    env = dict(os.environ)
    env["MICROJS_VERIF"] = "1"
    env["PYTHONPATH"] = f"{REPO}/src:{ROOT}" + (":" + str(DEPS) if DEPS.exists() else "")
    env.setdefault("PYTHONHASHSEED", "0")
    env["PYTHONDONTWRITEBYTECODE"] = "1"
    if extra:
        env.update(extra)
    return env


class Timer:
    def __init__(self):
        self.t0 = time.time()

    def s(self):
        return round(time.time() - self.t0, 2)
