"""Differential plumbing: run many small programs on the engine and on node, pair the results.

Two granularities:
  * prog_batches(): programs evaluated one ctx.eval each on a context shared by the batch
    (fast path for one-expression programs; completion value is the observation);
  * full cases (fresh context, log channel) go through engine.w_run / node runCase.
"""
from .common import h


# ---------- worker side ----------------------------------------------------
def w_progs(case, opts):
    """case = {progs:[src...], pre?:src}: evaluate each on one shared Context; return raw typed results."""
    from . import engine as E
    ctx = E.new_context(opts.get("tl"), opts.get("ml"))
    E.install_hooks()
    res = []
    raw = []
    orig = ctx._to_python
    depth = [0]

    def spy(v, *rest):
        if depth[0] == 0:
            raw.append(v)
        depth[0] += 1
        try:
            return orig(v, *rest)
        finally:
            depth[0] -= 1
    ctx._to_python = spy
    if case.get("pre"):
        ctx.eval(case["pre"])
    fresh_each = opts.get("fresh_each", False)
    for src in case["progs"]:
        if fresh_each:
            ctx = E.new_context(opts.get("tl"), opts.get("ml"))
            orig = ctx._to_python
            ctx._to_python = spy
            if case.get("pre"):
                ctx.eval(case["pre"])
        raw.clear()
        E.RUN.ticks = 0
        E.RUN.max_ticks = opts.get("max_steps", 200_000)
        E.RUN.vm_mons = []
        E.RUN.rx_mons = []
        try:
            py = ctx.eval(src)
            r = {"ret": E.enc(raw[-1], {}) if raw else ["noraw"]}
            if opts.get("py"):
                r["py"] = E.encpy(py)
        except E.VerifAbort as e:
            r = {"abort": str(e)}
        except E.JSError as e:
            r = {"err": E.describe_exc(e)}
        except RecursionError as e:
            r = {"err": {"cls": "RecursionError", "kind": "host", "msg": "", "site": E.escape_site(e)}}
        except Exception as e:
            r = {"err": E.describe_exc(e)}
        res.append(r)
    return {"res": res}


# ---------- parent side ------------------------------------------------------
def chunks(xs, n):
    for i in range(0, len(xs), n):
        yield xs[i:i + n]


def run_progs(epool, npool, progs, pre=None, per=300, opts=None, node_timeout=120, eng_timeout=120):
    """Evaluate programs on both sides. Returns list of (eng, ref) aligned with progs.
    eng = {"ret":enc} | {"err":{...}} | {"abort":..} | {"_fail":..}; ref = {"ret":enc} | {"err":name}."""
    import threading
    groups = list(chunks(progs, per))
    ecases = [{"progs": g, "pre": pre} for g in groups]
    ncases = [{"kind": "exprs", "exprs": g, "pre": pre} for g in groups]
    out = {}

    def eng():
        out["e"] = epool.map({"mod": "vf.diff", "fn": "w_progs", "opts": opts or {}}, ecases, batch=1,
                             timeout=eng_timeout)

    def ref():
        out["n"] = npool.map({}, ncases, batch=1, timeout=node_timeout) if npool else None
    t1, t2 = threading.Thread(target=eng), threading.Thread(target=ref)
    t1.start(); t2.start(); t1.join(); t2.join()
    pairs = []
    for gi, g in enumerate(groups):
        er = out["e"][gi]
        nr = out["n"][gi] if out["n"] else None
        if er is None or "res" not in er:
            # whole group failed (hang/crash of the worker): retry one program per group to isolate
            sub = epool.map({"mod": "vf.diff", "fn": "w_progs", "opts": opts or {}},
                            [{"progs": [p], "pre": pre} for p in g], batch=1, timeout=30)
            eres = [(s["res"][0] if s and "res" in s else {"_fail": (s or {}).get("_fail", "?"),
                                                              "detail": s}) for s in sub]
        else:
            eres = er["res"]
        nres = nr["res"] if nr and "res" in nr else [None] * len(g)
        for p, e, n in zip(g, eres, nres):
            pairs.append((e, n))
    return pairs


def eng_key(e):
    """Normalised engine outcome for comparison/hashing (messages and addresses dropped)."""
    if e is None:
        return ["none"]
    if "ret" in e:
        return ["ret", e["ret"]]
    if "err" in e:
        d = e["err"]
        if d.get("kind") == "host":
            return ["host", d.get("cls"), d.get("site")]
        return ["js", d.get("cls"), d.get("name")]
    if "abort" in e:
        return ["abort", e["abort"]]
    return ["fail", e.get("_fail")]


def obs_hash(e):
    return h(eng_key(e), 10)


# ---------- full cases: fresh context, log channel ----------------------------------------
def run_cases(epool, npool, cases, opts=None, batch=40, timeout=120):
    """cases: [{src, pre?}] -> list of (eng_record, node_record)."""
    import threading
    out = {}
    eo = dict(opts or {})

    def eng():
        out["e"] = epool.map({"mod": "vf.engine", "fn": "w_run", "opts": eo},
                             [{"src": c["src"], "opts": c.get("opts")} for c in cases],
                             batch=batch, timeout=timeout, single_timeout=30)

    def ref():
        out["n"] = npool.map({}, [{"src": c["src"], "sloppy": c.get("sloppy", False)} for c in cases],
                             batch=batch, timeout=timeout) if npool else [None] * len(cases)
    t1, t2 = threading.Thread(target=eng), threading.Thread(target=ref)
    t1.start(); t2.start(); t1.join(); t2.join()
    return list(zip(out["e"], out["n"]))


def strip_stamp(log):
    return [[x for x in e if not (isinstance(x, list) and x and x[0] == "tick")] for e in log]


def full_key(e):
    """Normalised engine observation of a full case (for comparison and hashing)."""
    if e is None:
        return ["none"]
    if "_fail" in e:
        return ["fail", e["_fail"]]
    if "_exc" in e:
        return ["harness", e["_exc"]]
    k = {"log": strip_stamp(e.get("log", []))}
    if e["out"] == "ok":
        k["ret"] = e.get("ret")
    elif e["out"] == "abort":
        k["abort"] = e.get("abort")
    else:
        d = e.get("err", {})
        if d.get("kind") == "host":
            k["err"] = ["host", d.get("cls"), d.get("site")]
        else:
            k["err"] = ["js", d.get("cls"), d.get("name")]
    return k


def cmp_full(e, n, judge_ret=True):
    """Compare engine record with node record. Returns None if they agree, else a reason string."""
    if n is None:
        return None
    if "oracle_error" in n:
        return None
    ek = full_key(e)
    if not isinstance(ek, dict):
        return "engine:" + str(ek)
    if ek["log"] != n["log"]:
        return "log"
    if n["err"] is None:
        if "ret" not in ek:
            return "engine-failed:" + str(ek.get("err") or ek.get("abort"))
        if judge_ret and ek["ret"] != n["ret"]:
            return "completion-value"
        return None
    if n["err"].get("name") == "ORACLE_TIMEOUT":
        return None
    if "ret" in ek:
        return "engine-returned-but-reference-threw:" + str(n["err"].get("name"))
    if ek.get("err", ["?"])[0] != "js":
        return "engine-host-error:" + str(ek.get("err") or ek.get("abort"))
    return None
