"""Worker-side harness around the real engine (imported from /repo/src, hooks on).

run_js() evaluates one script on a fresh (or given) Context with
  * a virtual clock driven by the step hooks (one tick = one VM instruction or
    one regex step = 1 microsecond of engine-visible time),
  * an observation channel log(...) that snapshots raw engine values,
  * pluggable step monitors,
  * a step budget that aborts (VerifAbort) instead of hanging,
and returns a JSON-able record of what was observed.
"""
import linecache
import math
import os
import struct
import sys
import time
import traceback

import microjs
from microjs import _verif as V
from microjs import context as mctx
from microjs import values as mval
from microjs import vm as mvm
from microjs.errors import JSError, JSSyntaxError, MemoryLimitError, TimeLimitError

assert V.ENABLED, "MICROJS_VERIF=1 must be set before importing microjs"
PKG_DIR = os.path.dirname(os.path.abspath(microjs.__file__))

UNDEFINED, NULL = mval.UNDEFINED, mval.NULL
_REAL = {"monotonic": time.monotonic, "time": time.time, "perf_counter": time.perf_counter}


class VerifAbort(BaseException):
    """Raised from a hook to stop a run (budget exhausted or invariant already broken)."""


def hexbits(x):
    if x != x:
        return "nan"
    return struct.pack(">d", x).hex()


def enc(v, ids, depth=0):
    """Typed, identity-preserving snapshot of a raw engine value."""
    if v is UNDEFINED:
        return ["u"]
    if v is NULL:
        return ["n"]
    if v is True or v is False:
        return ["b", v]
    t = type(v)
    if t is int:
        try:
            f = float(v)
        except OverflowError:
            return ["I", "huge"]
        if int(f) != v:
            return ["I", str(v)]
        return ["d", hexbits(f)]
    if t is float:
        return ["d", hexbits(v)]
    if t is str:
        return ["s", v]
    if isinstance(v, mval.JSFunction):
        return ["f"]
    if isinstance(v, mval.JSObject):
        if depth > 8:
            return ["deep"]
        key = id(v)
        if key in ids:
            return ["ref", ids[key][0]]
        n = len(ids) + 1
        ids[key] = (n, v)
        if isinstance(v, mval.JSTypedArray):
            return ["ta", v._type_name, [enc(v.get_index(i), ids, depth + 1) for i in range(v.length)]]
        if isinstance(v, mval.JSArray):
            return ["a", n, [enc(e, ids, depth + 1) for e in v._elements]]
        if isinstance(v, mval.JSRegExp):
            return ["r", v._pattern, v._flags]
        if isinstance(v, mval.JSArrayBuffer):
            return ["ab", v.byteLength]
        if hasattr(v, "_call_fn"):
            return ["f"]
        p = v._properties
        if "message" in p and "name" in p and "stack" in p:
            return ["e", p["name"] if isinstance(p["name"], str) else "?"]
        return ["o", n, [[k, enc(x, ids, depth + 1)] for k, x in p.items()]]
    if callable(v):
        return ["f"]
    return ["HOST", type(v).__name__]


def encpy(v, depth=0, _path=None, _budget=None):
    """Typed snapshot of a Python-side value (what eval/get hand to the embedder); a container met again on its own path is
    recorded as ["cyc"] (results of cyclic script values are cyclic Python structures).  The snapshot is a tree: a result in
    which one container is shared many times (9000 references to one 9000-element array) would unfold to its full size, so
    after 300000 nodes further containers are recorded as ["big"] (the harness must not run out of memory where the engine did not)."""
    if _budget is None:
        _budget = [300000]
    _budget[0] -= 1
    if v is None:
        return ["N"]
    if v is True or v is False:
        return ["b", v]
    t = type(v)
    if t is int:
        return ["i", str(v)]
    if t is float:
        return ["d", hexbits(v)]
    if t is str:
        return ["s", v]
    if depth > 400:
        return ["deep"]
    if t is list or t is dict:
        if _budget[0] < 0:
            return ["big"]
        _path = _path if _path is not None else set()
        if id(v) in _path:
            return ["cyc"]
        _path.add(id(v))
        try:
            if t is list:
                return ["l", [encpy(x, depth + 1, _path, _budget) for x in v]]
            return ["m", [[k if isinstance(k, str) else ["K", type(k).__name__], encpy(x, depth + 1, _path, _budget)] for k, x in v.items()]]
        finally:
            _path.discard(id(v))
    if isinstance(v, mval.JSFunction):
        return ["jsf"]
    if callable(v) and not isinstance(v, type):
        return ["callable", type(v).__name__]
    return ["HOST", type(v).__name__]


def escape_site(exc):
    """Innermost microjs frame of a foreign exception: (module, qualname, source line)."""
    tb = exc.__traceback__
    site = None
    while tb is not None:
        code = tb.tb_frame.f_code
        fn = os.path.abspath(code.co_filename)
        if fn.startswith(PKG_DIR):
            mod = os.path.relpath(fn, PKG_DIR)
            qual = getattr(code, "co_qualname", code.co_name)
            line = linecache.getline(fn, tb.tb_lineno).strip()
            site = [mod, qual, line]
        tb = tb.tb_next
    return site


class Run:
    """State of the run currently being monitored (one at a time per worker)."""

    def __init__(self):
        self.ticks = 0
        self.vm_steps = 0
        self.rx_steps = 0
        self.max_ticks = 3_000_000
        self.vm_mons = []
        self.rx_mons = []
        self.base = 1000.0
        self.abort_reason = None


RUN = Run()


def _vnow():
    return RUN.base + RUN.ticks * 1e-6


def _on_vm_step(vm):
    r = RUN
    r.ticks += 1
    r.vm_steps += 1
    if r.ticks > r.max_ticks:
        r.abort_reason = "step_budget"
        raise VerifAbort("step_budget")
    for m in r.vm_mons:
        m(vm)


def _on_regex_step(rvm, loop, pc, sp, nstack):
    r = RUN
    r.ticks += 1
    r.rx_steps += 1
    if r.ticks > r.max_ticks:
        r.abort_reason = "step_budget"
        raise VerifAbort("step_budget")
    for m in r.rx_mons:
        m(rvm, loop, pc, sp, nstack)


def install_hooks():
    V.on_vm_step = _on_vm_step
    V.on_regex_step = _on_regex_step


def clock_on():
    time.monotonic = _vnow
    time.time = _vnow
    time.perf_counter = _vnow


def clock_off():
    time.monotonic = _REAL["monotonic"]
    time.time = _REAL["time"]
    time.perf_counter = _REAL["perf_counter"]


def real_now():
    return _REAL["monotonic"]()


def _clip(m):
    """Messages that quote a long source keep their head and their tail (where the reason is)."""
    return m if len(m) <= 300 else m[:180] + " ... " + m[-115:]


def describe_exc(e):
    if isinstance(e, JSError):
        d = {"cls": type(e).__name__, "name": getattr(e, "name", None), "msg": _clip(str(getattr(e, "message", ""))),
             "kind": "js"}
        if isinstance(e, JSSyntaxError):
            d["line"], d["col"] = e.line, e.column
        if type(e) not in (JSError, JSSyntaxError, MemoryLimitError, TimeLimitError) and not isinstance(e, JSError):
            d["kind"] = "host"
        return d
    return {"cls": type(e).__name__, "msg": _clip(str(e)), "kind": "host", "site": escape_site(e)}


def new_context(tl=None, ml=None, quiet=True):
    ctx = microjs.Context(memory_limit=ml, time_limit=(tl * 1e-6 if tl is not None else None))
    if quiet:
        con = ctx._globals.get("console")
        if isinstance(con, mval.JSObject):
            con.set("log", lambda *a: None)
    return ctx


def run_js(src, opts=None, ctx=None):
    """Evaluate src through the real Context.eval under hooks; return an observation record."""
    opts = opts or {}
    r = RUN
    r.ticks = r.vm_steps = r.rx_steps = 0
    r.max_ticks = opts.get("max_steps", 3_000_000)
    r.abort_reason = None
    r.base = opts.get("clock_base", 1000.0)
    r.vm_mons = list(opts.get("_vm_mons", ()))
    r.rx_mons = list(opts.get("_rx_mons", ()))
    install_hooks()
    if ctx is None:
        ctx = new_context(opts.get("tl"), opts.get("ml"))
    ids = {}
    log = []
    if opts.get("log", True):
        max_log = opts.get("max_log", 500)

        def _log(*args):
            if len(log) >= max_log:
                r.abort_reason = "log_budget"
                raise VerifAbort("log_budget")
            log.append([enc(a, ids) for a in args])
            if opts.get("stamp"):
                log[-1].append(["tick", r.ticks])
        ctx.set("log", _log)
    raw = []
    orig_tp = ctx._to_python
    depth = [0]

    def spy(v, *rest):
        if depth[0] == 0:
            raw.append(v)
        depth[0] += 1
        try:
            return orig_tp(v, *rest)
        finally:
            depth[0] -= 1
    ctx._to_python = spy
    rec = {"out": None}
    virtual = opts.get("virtual", True)
    t0 = real_now()
    if virtual:
        clock_on()
    try:
        for p in opts.get("pre", ()):
            ctx.eval(p)
        raw.clear()
        r.ticks = r.vm_steps = r.rx_steps = 0
        pyv = ctx.eval(src)
        rec["out"] = "ok"
        rec["ret"] = enc(raw[-1], ids) if raw else ["noraw"]
        rec["py"] = encpy(pyv)
    except VerifAbort as e:
        rec["out"] = "abort"
        rec["abort"] = str(e)
    except RecursionError as e:
        rec["out"] = "hosterr"
        rec["err"] = {"cls": "RecursionError", "msg": "", "kind": "host", "site": escape_site(e)}
    except MemoryError as e:
        rec["out"] = "hosterr"
        try:
            site = escape_site(e)
        except Exception:
            site = None
        rec["err"] = {"cls": "MemoryError", "msg": "", "kind": "host", "site": site}
    except JSError as e:
        rec["out"] = "jserr"
        rec["err"] = describe_exc(e)
    except Exception as e:
        rec["out"] = "hosterr"
        rec["err"] = describe_exc(e)
    finally:
        if virtual:
            clock_off()
        ctx._to_python = orig_tp
    rec["log"] = log
    rec["ticks"] = r.ticks
    rec["vm_steps"] = r.vm_steps
    rec["rx_steps"] = r.rx_steps
    rec["cur_vm_left"] = ctx._current_vm is not None
    rec["real_s"] = round(real_now() - t0, 4)
    if opts.get("keep_ctx"):
        rec["_ctx"] = ctx
    return rec


def w_run(case, opts):
    """Generic worker entry: case = {src, [opts]}."""
    o = dict(opts)
    o.update(case.get("opts") or {})
    rec = run_js(case["src"], o)
    rec.pop("_ctx", None)
    return rec
