"""Expression trees over the full operator set, with a minimal-parentheses printer driven by the ECMAScript
precedence/associativity table, a fully parenthesised printer, and token-level rendering with trivia."""
import random

BIN = {  # operator -> precedence
    "||": 4, "&&": 5, "|": 6, "^": 7, "&": 8, "==": 9, "!=": 9, "===": 9, "!==": 9,
    "<": 10, "<=": 10, ">": 10, ">=": 10, "in": 10, "instanceof": 10, "<<": 11, ">>": 11, ">>>": 11,
    "+": 12, "-": 12, "*": 13, "/": 13, "%": 13, "**": 14,
}
ARITH = ["||", "&&", "|", "^", "&", "==", "!=", "===", "!==", "<", "<=", ">", ">=", "<<", ">>", ">>>", "+", "-", "*", "/", "%", "**"]
UNARY = ["-", "+", "!", "~", "typeof", "void"]
ASSIGN = ["=", "+=", "-=", "*=", "/=", "%=", "&=", "|=", "^=", "<<=", ">>=", ">>>=", "**="]
P_COMMA, P_ASSIGN, P_COND, P_UNARY, P_POSTFIX, P_CALL, P_PRIMARY = 1, 2, 3, 15, 16, 17, 20

PRELUDE = ("var a = 7, b = 3, c = 2, d = 5, e = 11; var o = {p: 4, q: {r: 6}, m: function (x) { return x + 100; }}; "
           "var arr = [1, 2, 3]; function f(x, y) { return (x === undefined ? 1 : x) * 10 + (y === undefined ? 2 : y); } "
           "function F(v) { this.v = v === undefined ? 9 : v; }\n")


def prec(n):
    k = n[0]
    if k in ("num", "id", "str", "this", "arr", "obj", "paren"):
        return P_PRIMARY
    if k in ("member", "index", "call", "new"):
        return P_CALL
    if k == "post":
        return P_POSTFIX
    if k in ("un", "pre"):
        return P_UNARY
    if k == "bin":
        return BIN[n[1]]
    if k == "cond":
        return P_COND
    if k == "assign":
        return P_ASSIGN
    if k == "seq":
        return P_COMMA
    raise ValueError(k)


def toks(n, minimal=True, extra=None):
    """Token list of n. minimal=True: only the parentheses the grammar requires; False: around every operand.
    extra: an rng - additionally wrap random sub-expressions (leaves included) in 1-2 layers of redundant parentheses."""
    def sub(child, need):
        t = toks(child, minimal, extra)
        if (not minimal and prec(child) < P_PRIMARY) or prec(child) < need:
            t = ["("] + t + [")"]
        if extra is not None:
            while extra.random() < 0.3:
                t = ["("] + t + [")"]
        return t
    k = n[0]
    if k in ("num", "id", "str"):
        return [n[1]]
    if k == "this":
        return ["this"]
    if k == "arr":
        out = ["["]
        for i, e in enumerate(n[1]):
            if i:
                out.append(",")
            out += sub(e, P_ASSIGN)
        return out + ["]"]
    if k == "un":
        return [n[1]] + sub(n[2], P_UNARY)
    if k == "pre":
        return [n[1]] + sub(n[2], P_CALL)
    if k == "post":
        return sub(n[2], P_CALL) + [("NOLT", n[1])]
    if k == "bin":
        op, l, r = n[1], n[2], n[3]
        p = BIN[op]
        if op == "**":
            return sub(l, P_POSTFIX) + [op] + sub(r, p)
        return sub(l, p) + [op] + sub(r, p + 1)
    if k == "cond":
        return sub(n[1], 4) + ["?"] + sub(n[2], P_ASSIGN) + [":"] + sub(n[3], P_ASSIGN)
    if k == "assign":
        return toks(n[2], minimal, None) + [n[1]] + sub(n[3], P_ASSIGN)
    if k == "seq":
        out = []
        for i, e in enumerate(n[1]):
            if i:
                out.append(",")
            out += sub(e, P_ASSIGN)
        return out
    if k == "member":
        o = sub(n[1], P_CALL)
        if n[1][0] == "num":
            o = ["("] + o + [")"]
        return o + [".", n[2]]
    if k == "index":
        return sub(n[1], P_CALL) + ["["] + toks(n[2], minimal, extra) + ["]"]
    if k == "call":
        out = sub(n[1], P_CALL) + ["("]
        for i, e in enumerate(n[2]):
            if i:
                out.append(",")
            out += sub(e, P_ASSIGN)
        return out + [")"]
    if k == "new":
        out = ["new"] + sub(n[1], P_PRIMARY) + ["("]
        for i, e in enumerate(n[2]):
            if i:
                out.append(",")
            out += sub(e, P_ASSIGN)
        return out + [")"]
    raise ValueError(k)


def render(tokens, rng=None):
    """Join tokens. rng=None: single spaces. Otherwise random ASCII whitespace / line breaks / comments between
    tokens (no line terminator before a postfix ++/--)."""
    out = []
    for i, t in enumerate(tokens):
        nolt = isinstance(t, tuple)
        text = t[1] if nolt else t
        if i:
            out.append(trivia(rng, allow_newline=not nolt) if rng else " ")
        out.append(text)
    if rng:
        return trivia(rng, True) + "".join(out) + trivia(rng, True)
    return "".join(out)


def trivia(rng, allow_newline=True):
    parts = []
    for _ in range(rng.choice([1, 1, 1, 2, 3])):
        r = rng.random()
        if r < 0.45:
            parts.append(rng.choice([" ", "  ", "\t", " \t ", "\x0b", "\x0c", " \x0c\t"]))
        elif r < 0.6 and allow_newline:
            parts.append(rng.choice(["\n", "\r\n", "\n\n", " \n "]))
        elif r < 0.8:
            parts.append(rng.choice(["/**/", "/* c */", "/* * / */", "/*+*/", "/* // */", "/*/ c */", "/*/*/", "/***/", "/*//*/", "/* /* */", "/*\\*/", "/*'*/", "/*\"*/", "/*/ + 1 /*/"]))
        elif r < 0.9 and allow_newline:
            parts.append(rng.choice(["// c\n", "//\n", "// /* \n", "/* a\n b */", "// */\n", "//'\n", "/*/\n/*/", "/*\n//\n*/", "//\\\n", "// c\r", "// c\r\n", "//\r", "/* a\r b */"]))
        else:
            parts.append(" ")
    s = "".join(parts)
    if "/" in s:
        s = " " + s + " "      # a comment glued to a '/' or '*' token would change the tokens themselves
    return s


# ---------------- tree construction ---------------------------------------------------------------
LEAVES = [("id", "a"), ("id", "b"), ("id", "c"), ("id", "d"), ("id", "e"), ("num", "2"), ("num", "3"), ("num", "10"), ("num", "0.5"),
          ("str", "'s'"), ("member", ("id", "o"), "p"), ("index", ("id", "arr"), ("num", "1"))]
TARGETS = [("id", "a"), ("id", "b"), ("member", ("id", "o"), "p"), ("index", ("id", "arr"), ("num", "0")),
           ("member", ("member", ("id", "o"), "q"), "r")]


def leaf(rng):
    return rng.choice(LEAVES)


def combine(kind, xs, rng):
    """Build a node of the given operator kind from operand nodes xs (list, consumed left to right)."""
    if kind in BIN:
        return ("bin", kind, xs[0], xs[1])
    if kind in UNARY:
        return ("un", kind, xs[0])
    if kind in ASSIGN:
        return ("assign", kind, rng.choice(TARGETS), xs[0])
    if kind == "?:":
        return ("cond", xs[0], xs[1], xs[2] if len(xs) > 2 else leaf(rng))
    if kind == ",":
        return ("seq", [xs[0], xs[1]])
    if kind == "call":
        return ("call", ("id", "f"), xs[:2])
    if kind == "method":
        return ("call", ("member", ("id", "o"), "m"), xs[:1])
    if kind == "new":
        return ("member", ("new", ("id", "F"), xs[:1]), "v")
    if kind == "++post":
        return ("post", "++", rng.choice(TARGETS))
    if kind == "--pre":
        return ("pre", "--", rng.choice(TARGETS))
    if kind == "index":
        return ("index", ("id", "arr"), xs[0])
    if kind == "array":
        return ("index", ("arr", xs[:2]), ("num", "0"))
    raise ValueError(kind)


KINDS = ARITH + UNARY + ["=", "+=", "*=", ">>>=", "?:", ",", "call", "method", "new", "++post", "--pre", "index", "array"]
ARITY = {"?:": 3, ",": 2, "call": 2, "method": 1, "new": 1, "++post": 0, "--pre": 0, "index": 1, "array": 2}


def arity(kind):
    if kind in BIN:
        return 2
    if kind in UNARY or kind in ASSIGN:
        return 1
    return ARITY[kind]


def pairs(rng):
    """All ordered operator pairs (outer, inner) with the inner node in every operand position of the outer."""
    for outer in KINDS:
        for inner in KINDS:
            n_out = arity(outer)
            for pos in range(max(n_out, 1)):
                if n_out == 0:
                    continue
                inner_node = combine(inner, [leaf(rng) for _ in range(3)], rng)
                ops = [leaf(rng) for _ in range(3)]
                ops[pos] = inner_node
                yield (outer, inner, pos), combine(outer, ops, rng)


def random_tree(rng, depth):
    if depth <= 0 or rng.random() < 0.2:
        return leaf(rng)
    kind = rng.choice(KINDS)
    return combine(kind, [random_tree(rng, depth - 1) for _ in range(3)], rng)


def valid(n):
    """Filter out trees that are early errors in ECMAScript (unary operand of ** etc. are handled by the printer;
    'in'/'instanceof' need suitable operands at run time: keep them out of value-judged trees)."""
    k = n[0]
    if k == "bin" and n[1] in ("in", "instanceof"):
        return False
    return all(valid(x) for x in n[1:] if isinstance(x, tuple) and x and isinstance(x[0], str)) and \
        all(valid(y) for x in n[1:] if isinstance(x, list) for y in x)
