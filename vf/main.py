"""Entry point: python -m vf.main C06 --tier quick [--seed N] [--replay path]."""
import argparse
import importlib
import os
import sys

from .common import ROOT, ensure_deps


def main():
    ap = argparse.ArgumentParser()
    ap.add_argument("pid")
    ap.add_argument("--tier", default=os.environ.get("VERIF_TIER", "quick"), choices=["quick", "thorough"])
    ap.add_argument("--seed", type=int, default=None)
    ap.add_argument("--replay", default=None)
    ap.add_argument("--record", default=None, help="dev only: dump unlisted failing cells to this file")
    a = ap.parse_args()
    seed = a.seed if a.seed is not None else int(os.environ.get("VERIF_SEED", "0") or 0)
    ensure_deps()
    sys.path.insert(0, str(ROOT))
    mod = importlib.import_module(f"checks.{a.pid}")
    from .checkctx import Ctx
    ctx = Ctx(a.pid, a.tier, seed, level=getattr(mod, "LEVEL", "exploration"))
    ctx.record_path = a.record
    if a.replay:
        return mod.replay(ctx, a.replay)
    mod.main(ctx)
    ctx.finish()


if __name__ == "__main__":
    main()
