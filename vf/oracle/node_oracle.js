// Reference evaluator: reads one JSON line {cases:[{src, pre?, timeout?}]} per batch,
// evaluates every case in a fresh vm context (strict mode unless case.sloppy),
// answers one JSON line {results:[{log, ret, err}]}.
'use strict';
const vm = require('vm');
const readline = require('readline');

const buf = new DataView(new ArrayBuffer(8));
function hexbits(v) {
  if (v !== v) return 'nan';
  buf.setFloat64(0, v);
  return buf.getBigUint64(0).toString(16).padStart(16, '0');
}
const TAG = Object.prototype.toString;
function makeEnc() {
  const ids = new Map();
  function enc(v, depth) {
    if (v === undefined) return ['u'];
    if (v === null) return ['n'];
    const t = typeof v;
    if (t === 'boolean') return ['b', v];
    if (t === 'number') return ['d', hexbits(v)];
    if (t === 'string') return ['s', v];
    if (t === 'function') return ['f'];
    if (t === 'symbol' || t === 'bigint') return ['x', t];
    if (depth > 8) return ['deep'];
    if (ids.has(v)) return ['ref', ids.get(v)];
    const id = ids.size + 1;
    ids.set(v, id);
    if (Array.isArray(v)) {
      const out = [];
      for (let i = 0; i < v.length; i++) out.push(enc(v[i], depth + 1));
      return ['a', id, out];
    }
    const tag = TAG.call(v);
    if (tag === '[object Error]') {
      let name = 'Error';
      try { name = String(v.name); } catch (e) {}
      return ['e', name];
    }
    if (tag === '[object RegExp]') return ['r', v.source, v.flags];
    if (ArrayBuffer.isView(v) && tag !== '[object DataView]') {
      const out = [];
      for (let i = 0; i < v.length; i++) out.push(enc(v[i], depth + 1));
      return ['ta', tag.slice(8, -1), out];
    }
    if (tag === '[object ArrayBuffer]') return ['ab', v.byteLength];
    const props = [];
    for (const k of Object.keys(v)) {
      const d = Object.getOwnPropertyDescriptor(v, k);
      if (d && 'value' in d) props.push([k, enc(d.value, depth + 1)]);
    }
    return ['o', id, props];
  }
  return enc;
}

function runCase(c) {
  const enc = makeEnc();
  const log = [];
  const sandbox = {};
  const ctx = vm.createContext(sandbox);
  sandbox.log = function () {
    if (log.length >= (c.max_log || 500)) { const e = new Error('log budget'); e.code = 'ERR_SCRIPT_EXECUTION_TIMEOUT'; throw e; }
    const entry = [];
    for (let i = 0; i < arguments.length; i++) entry.push(enc(arguments[i], 0));
    log.push(entry);
  };
  sandbox.console = { log: function () {} };
  const out = { log: log, ret: null, err: null };
  try {
    if (c.pre) vm.runInContext(c.pre, ctx, { timeout: c.timeout || 700 });
    const src = (c.sloppy ? '' : '"use strict";\n') + c.src;
    const v = vm.runInContext(src, ctx, { timeout: c.timeout || 700 });
    out.ret = enc(v, 0);
  } catch (e) {
    let name = null, msg = null, thrown = null;
    try {
      thrown = enc(e, 0);
      if (e !== null && (typeof e === 'object' || typeof e === 'function')) {
        name = (typeof e.name === 'string') ? e.name : null;
        msg = (typeof e.message === 'string') ? e.message : null;
        if (e.code === 'ERR_SCRIPT_EXECUTION_TIMEOUT') name = 'ORACLE_TIMEOUT';
      }
    } catch (e2) { name = 'ORACLE_ENC_FAIL'; }
    out.err = { name: name, msg: msg, thrown: thrown };
  }
  return out;
}

// expression batches: one context, many thunks; much faster than fresh contexts.
function runExprBatch(c) {
  // c.exprs: array of source strings, each evaluated as an expression via Function-less eval in a shared context
  const ctx = vm.createContext({});
  if (c.pre) vm.runInContext(c.pre, ctx);
  const res = [];
  for (const e of c.exprs) {
    const enc = makeEnc();
    try {
      const v = vm.runInContext('"use strict";\n' + e, ctx, { timeout: 4000 });
      res.push({ ret: enc(v, 0) });
    } catch (ex) {
      let name = null;
      try { name = (ex && typeof ex.name === 'string') ? ex.name : null; } catch (e2) {}
      // the reference running out of its own wall-clock budget (a loaded machine) decides nothing about this program
      let timedOut = false;
      try { timedOut = !!ex && ex.code === 'ERR_SCRIPT_EXECUTION_TIMEOUT'; } catch (e3) {}
      res.push(timedOut ? null : { err: name || 'throw' });
    }
  }
  return { res: res };
}

function runRegexBatch(c) {
  // c.items: [{p, f, s}] -> exec result: null | {i, g:[...]} | {err}
  const res = [];
  for (const it of c.items) {
    try {
      const re = new RegExp(it.p, it.f);
      if (it.li !== undefined) re.lastIndex = it.li;
      const m = re.exec(it.s);
      if (m === null) res.push({ m: null, li: re.lastIndex });
      else res.push({ m: { i: m.index, g: Array.from(m, x => (x === undefined ? null : x)) }, li: re.lastIndex });
    } catch (ex) {
      res.push({ err: ex && ex.name });
    }
  }
  return { res: res };
}

function runRegexMatrix(c) {
  // c.pats: [[p, f], ...], c.subjects: [s...] -> rows[pat] = 'ERR:name' | [ per subject: null | [index, g0, g1, ...] ]
  const rows = [];
  for (const pf of c.pats) {
    let re;
    try { re = new RegExp(pf[0], pf[1]); } catch (ex) { rows.push('ERR:' + (ex && ex.name)); continue; }
    const row = [];
    for (const s of c.subjects) {
      re.lastIndex = 0;
      let m;
      const t0 = Date.now();
      try { m = re.exec(s); } catch (ex) { row.push('THROW'); continue; }
      if (Date.now() - t0 > 50) { row.push('SLOW'); continue; }
      if (m === null) row.push(null);
      else { const r = [m.index]; for (let i = 0; i < m.length; i++) r.push(m[i] === undefined ? null : m[i]); row.push(r); }
    }
    rows.push(row);
  }
  return { rows: rows };
}

function runParseBatch(c) {
  // c.srcs: [source...] -> per source 'ok' (compiles as a strict script) | error name. Nothing is executed.
  const out = [];
  for (const src of c.srcs) {
    try { new vm.Script("'use strict'; " + src); out.push('ok'); } catch (ex) { out.push(String(ex && ex.name)); }
  }
  return { res: out };
}

const rl = readline.createInterface({ input: process.stdin, terminal: false, crlfDelay: Infinity });
rl.on('line', function (line) {
  let msg;
  try { msg = JSON.parse(line); } catch (e) { process.stdout.write(JSON.stringify({ error: 'bad json' }) + '\n'); return; }
  const results = [];
  for (const c of msg.cases) {
    try {
      if (c.kind === 'exprs') results.push(runExprBatch(c));
      else if (c.kind === 'regex') results.push(runRegexBatch(c));
      else if (c.kind === 'rxmatrix') results.push(runRegexMatrix(c));
      else if (c.kind === 'parse') results.push(runParseBatch(c));
      else results.push(runCase(c));
    } catch (e) {
      results.push({ oracle_error: String(e) });
    }
  }
  process.stdout.write(JSON.stringify({ results: results }) + '\n');
});
