"""Places where script code can run: templates wrapping a statement list CORE so that it
executes at top level, in a function, arrow, constructor, as a callback of each
callback-taking built-in, accessor, implicit conversion, call/apply/bind, indirect eval,
new Function.  Shared by C01/C02/C07."""
import json

CALLBACK_METHODS = ["map", "filter", "forEach", "reduce", "reduceRight", "find", "findIndex", "some", "every"]


def q(s):
    return json.dumps(s)


def placements(core, tag=""):
    """Yield (name, source) for every placement of the statement list `core`.
    `core` must not contain a bare `return` (it may run at top level)."""
    P = []
    P.append(("top", core))
    P.append(("block", "{ " + core + " }"))
    P.append(("function", "function F(){ " + core + " } F();"))
    P.append(("funcexpr", "var G = function(){ " + core + " }; G();"))
    P.append(("arrow", "var A = () => { " + core + " }; A();"))
    P.append(("ctor", "function K(){ " + core + " } new K();"))
    P.append(("nested", "function O(){ function I(){ " + core + " } I(); } O();"))
    P.append(("method", "var m = { f: function(){ " + core + " } }; m.f();"))
    for m in CALLBACK_METHODS:
        if m in ("reduce", "reduceRight"):
            P.append(("cb:" + m, "[1,2].%s(function(a,b){ %s return 0; }, 0);" % (m, core)))
        else:
            P.append(("cb:" + m, "[1,2].%s(function(x){ %s return 0; });" % (m, core)))
    P.append(("cb:sort", "[2,1,3].sort(function(a,b){ %s return a-b; });" % core))
    P.append(("cb:arrow", "[1].forEach((x) => { " + core + " });"))
    P.append(("getter", "var o = { get p(){ " + core + " return 1; } }; o.p;"))
    P.append(("setter", "var o = { set p(v){ " + core + " } }; o.p = 1;"))
    P.append(("defprop-getter", "var o = {}; Object.defineProperty(o, 'p', { get: function(){ " + core + " return 1; } }); o.p;"))
    for nm, use in (("valueOf+", "o + 1"), ("valueOf-", "o - 1"), ("valueOf*", "o * 2"), ("valueOf<", "o < 1"),
                    ("valueOf==", "o == 1")):
        P.append((nm, "var o = { valueOf: function(){ " + core + " return 1; } }; " + use + ";"))
    P.append(("toString+", "var o = { toString: function(){ " + core + " return 'x'; } }; '' + o;"))
    P.append(("call", "function F(){ " + core + " } F.call(null);"))
    P.append(("apply", "function F(){ " + core + " } F.apply(null, []);"))
    P.append(("bind", "function F(){ " + core + " } F.bind(null)();"))
    P.append(("eval", "eval(" + q(core) + ");"))
    P.append(("eval-indirect", "(0, eval)(" + q(core) + ");"))
    P.append(("eval-in-func", "function F(){ eval(" + q(core) + "); } F();"))
    P.append(("newFunction", "new Function(" + q(core) + ")();"))
    P.append(("Function", "Function(" + q(core) + ")();"))
    P.append(("eval-nested", "eval(" + q("eval(" + q(core) + ")") + ");"))
    return P


WRAPPERS = [
    ("bare", "%s"),
    ("try-catch", "try { %s } catch (e) { log('C'); }"),
    ("try-finally", "try { %s } finally { log('F'); }"),
    ("try-catch-finally", "try { %s } catch (e) { log('C'); } finally { log('F'); }"),
    ("nested-try", "try { try { %s } catch (e1) { log('C1'); } finally { log('F1'); } } catch (e2) { log('C2'); } finally { log('F2'); }"),
    ("catch-loops", "try { %s } catch (e) { log('C'); while (true) {} }"),
    ("finally-loops", "try { %s } finally { log('F'); for (;;) {} }"),
]
