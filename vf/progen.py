"""Seeded random programs of the implemented subset (var/function/closures/bounded loops), plus
deterministic closure-sharing and completion-value probes.  Every loop has a literal bound, every
recursion a literal depth, so all programs terminate quickly on both engines."""
import random

# feature tags a caller may ask the generator to avoid (open known findings name these)
ALL_AVOIDABLE = {"early-exit-iter", "switch-default-not-last", "labelled-continue", "jump-in-try-finally",
                 "throw", "arguments", "named-funcexpr", "forin", "forof", "switch"}


class G:
    def __init__(self, rng, avoid=()):
        self.r = rng
        self.avoid = set(avoid)
        self.n = 0
        self.funcs = []   # (name, nparams)
        self.cheap = set()  # functions without loops/calls
        self.loopd = 0
        self.used_loop = False
        self.used_call = False

    def fresh(self, p):
        self.n += 1
        return "%s%d" % (p, self.n)

    # ---------- expressions -------------------------------------------------
    def atom(self, vars_):
        r = self.r.random()
        if vars_ and r < 0.55:
            return self.r.choice(vars_)
        if r < 0.85:
            return str(self.r.randint(0, 9))
        return self.r.choice(["'a'", "'b'", "true", "false", "null"])

    def expr(self, vars_, d=2):
        if d == 0 or self.r.random() < 0.3:
            return self.atom(vars_)
        r = self.r.random()
        if r < 0.5:
            op = self.r.choice(["+", "-", "*", "<", "<=", "===", "!==", "&&", "||", "%", "&", "|"])
            return "(" + self.expr(vars_, d - 1) + " " + op + " " + self.expr(vars_, d - 1) + ")"
        if r < 0.6:
            return "(" + self.expr(vars_, d - 1) + " ? " + self.expr(vars_, d - 1) + " : " + self.expr(vars_, d - 1) + ")"
        cands = [fk for fk in self.funcs if self.loopd == 0 or fk[0] in self.cheap]
        if r < 0.8 and cands:
            f, k = self.r.choice(cands)
            self.used_call = True
            return f + "(" + ", ".join(self.expr(vars_, d - 1) for _ in range(k)) + ")"
        if r < 0.9:
            return "t(" + str(self.r.randint(100, 999)) + ", " + self.expr(vars_, d - 1) + ")"
        return "[" + self.atom(vars_) + ", " + self.atom(vars_) + "].length"

    # ---------- statements -----------------------------------------------------
    def stmts(self, vars_, d, in_loop, in_func, n=None):
        out = []
        for _ in range(n if n is not None else self.r.randint(1, 4)):
            out.append(self.stmt(vars_, d, in_loop, in_func))
        return " ".join(out)

    def loop_body(self, vars_, d, in_loop, in_func):
        self.loopd += 1
        self.used_loop = True
        try:
            return self.stmts(vars_, d, in_loop, in_func, n=self.r.randint(1, 3))
        finally:
            self.loopd -= 1

    def stmt(self, vars_, d, in_loop, in_func):
        r = self.r.random()
        if d <= 0 or r < 0.22:
            return "log(" + str(self.r.randint(1000, 9999)) + ", " + self.expr(vars_) + ");"
        if r < 0.28 and vars_ and in_func and "closure-stmt" not in self.avoid:
            # make some visible variables captured, then read / update them from both sides of the closure
            g = self.fresh("g")
            v = self.r.choice([x for x in vars_ if x[0] not in "iw"] or vars_)    # (not a loop counter: loops stay bounded)
            op = self.r.choice(["+=", "-=", "*=", "=", "++", "--"]) if v[0] not in "iw" else "+="
            upd = (v + op + ";") if op in ("++", "--") else (v + " " + op + " " + self.expr(vars_, 1) + ";")
            where = self.r.random()
            if where < 0.5 or self.loopd:
                mk = "var %s = function () { return [%s, typeof %s]; };" % (g, self.expr(vars_, 1), v)
            elif where < 0.75:
                w = self.fresh("w")
                mk = "var %s, %s = 0; while ((%s = function () { return [%s, typeof %s]; }), %s < 2) { %s++; }" % (g, w, g, self.expr(vars_, 1), v, w, w)
            else:
                mk = "var %s; switch ((%s = function () { return [%s, typeof %s]; }), 1) { case 1: break; }" % (g, g, self.expr(vars_, 1), v)
            return "%s log(%d, %s()); %s log(%d, %s(), typeof %s, %s);" % (mk, self.r.randint(1000, 9999), g, upd, self.r.randint(1000, 9999), g, v, v)
        if r < 0.31 and "bare-block" not in self.avoid:
            # bare blocks: alone, as siblings, nested, empty - statement lists of sibling blocks must stay separate
            k = self.r.random()
            a1 = self.stmts(list(vars_), d - 1, in_loop, in_func, n=self.r.randint(1, 2))
            if k < 0.3:
                return "{ " + a1 + " }"
            a2 = self.stmts(list(vars_), d - 1, in_loop, in_func, n=self.r.randint(1, 2))
            if k < 0.6:
                return "{ { " + a1 + " } { " + a2 + " } }"
            if k < 0.8:
                return "{ { " + a1 + " } {} { { " + a2 + " } } log(" + str(self.r.randint(1000, 9999)) + ", 0); { " + self.stmts(list(vars_), d - 1, in_loop, in_func, n=1) + " } }"
            return "{ " + a1 + " } { " + a2 + " }"
        if r < 0.34:
            v = self.fresh("v")
            s = "var " + v + " = " + self.expr(vars_) + ";"
            vars_.append(v)
            return s
        if r < 0.44 and vars_:
            v = self.r.choice(vars_)
            op = self.r.choice(["=", "+=", "-=", "*="])
            return v + " " + op + " " + self.expr(vars_) + ";"
        if r < 0.56:
            s = "if (" + self.expr(vars_) + ") { " + self.stmts(list(vars_), d - 1, in_loop, in_func) + " }"
            if self.r.random() < 0.5:
                s += " else { " + self.stmts(list(vars_), d - 1, in_loop, in_func) + " }"
            return s
        if r < 0.86 and self.loopd >= 2:
            return "log(" + str(self.r.randint(1000, 9999)) + ", " + self.expr(vars_) + ");"
        if r < 0.66:
            i = self.fresh("i")
            b = self.r.randint(1, 3)
            body = self.loop_body(vars_ + [i], d - 1, True, in_func)
            return "for (var %s = 0; %s < %d; %s++) { %s }" % (i, i, b, i, body)
        if r < 0.72:
            i = self.fresh("w")
            b = self.r.randint(1, 3)
            body = self.loop_body(vars_ + [i], d - 1, True, in_func)
            if self.r.random() < 0.5:
                return "var %s = 0; while (%s < %d) { %s++; %s }" % (i, i, b, i, body)
            return "var %s = 0; do { %s++; %s } while (%s < %d);" % (i, i, body, i, b)
        if r < 0.77 and "forof" not in self.avoid:
            v = self.fresh("e")
            jump_ok = "early-exit-iter" not in self.avoid
            body = self.loop_body(vars_ + [v], d - 1, jump_ok, in_func and jump_ok)
            return "for (var %s of [%s, %s, 7]) { %s }" % (v, self.atom(vars_), self.atom(vars_), body)
        if r < 0.81 and "forin" not in self.avoid:
            v = self.fresh("k")
            jump_ok = "early-exit-iter" not in self.avoid
            body = self.loop_body(vars_ + [v], d - 1, jump_ok, in_func and jump_ok)
            return "for (var %s in {p: 1, q: 2}) { %s }" % (v, body)
        if r < 0.86 and "switch" not in self.avoid:
            jump_ok = "early-exit-iter" not in self.avoid
            cases = []
            for cv in self.r.sample(range(5), self.r.randint(1, 3)):
                cases.append("case %d: %s %s" % (cv, self.stmts(list(vars_), d - 1, False, in_func and jump_ok, n=1),
                                                  "break;" if self.r.random() < 0.6 else ""))
            cases.append("default: " + self.stmts(list(vars_), d - 1, False, in_func and jump_ok, n=1))
            return "switch (" + self.expr(vars_, 1) + ") { " + " ".join(cases) + " }"
        if r < 0.90 and in_loop:
            return "if (" + self.expr(vars_, 1) + ") " + self.r.choice(["break;", "continue;"])
        if r < 0.94 and in_func:
            if self.r.random() < 0.3:
                return "if (" + self.expr(vars_, 1) + ") return;"
            return "if (" + self.expr(vars_, 1) + ") return " + self.expr(vars_) + ";"
        if r < 0.97 and "throw" not in self.avoid:
            v = self.fresh("x")
            tv = list(vars_)
            inner = self.stmts(tv, d - 1, False, False)
            return "try { %s if (%s) throw %s; %s } catch (%s) { log('c', %s); }" % (
                inner, self.expr(tv, 1), self.atom(tv), self.stmts(tv, d - 1, False, False, n=1), v, v)
        return "log(" + str(self.r.randint(1000, 9999)) + ", " + self.expr(vars_) + ");"

    # ---------- functions / closures ----------------------------------------------
    def function(self):
        name = self.fresh("f")
        k = self.r.randint(0, 3)
        params = [self.fresh("p") for _ in range(k)]
        vars_ = list(params)
        kind = self.r.random()
        if kind < 0.35:
            # counter-style closure factory: returns an object of closures sharing a cell
            c = self.fresh("c")
            body = ("var %s = %s; var inc = function (d) { %s = %s + d; return %s; }; var get = function () { return %s; }; "
                    "log('mk', %s); return {inc: inc, get: get};" % (c, self.expr(vars_, 1), c, c, c, c, c))
            self.funcs_closure = getattr(self, "funcs_closure", []) + [(name, k)]
            return "function %s(%s) { %s }" % (name, ", ".join(params), body), None
        self.used_loop = self.used_call = False
        body = self.stmts(vars_, 2, False, True) + " return " + self.expr(vars_) + ";"
        if not self.used_loop and not self.used_call:
            self.cheap.add(name)
        src = "function %s(%s) { %s }" % (name, ", ".join(params), body)
        return src, (name, k)


def random_program(rng, avoid=("early-exit-iter", "switch-default-not-last", "labelled-continue",
                               "jump-in-try-finally")):
    g = G(rng, avoid)
    parts = ["function t(k, v) { log('t', k); return v; }"]
    for _ in range(rng.randint(2, 5)):
        src, reg = g.function()
        parts.append(src)
        if reg:
            g.funcs.append(reg)
    top = []
    for (name, k) in getattr(g, "funcs_closure", []):
        o = g.fresh("o")
        args = ", ".join(str(rng.randint(0, 5)) for _ in range(k))
        top.append("var %s = %s(%s); var %sb = %s(%s); log('cl', %s.inc(2), %sb.inc(5), %s.get(), %sb.get(), %s.inc(1));" % (
            o, name, args, o, name, args, o, o, o, o, o))
    gv = []
    top.append(g.stmts(gv, 2, False, False, n=rng.randint(2, 4)))
    for (name, k) in g.funcs:
        top.append("log('call', %s(%s));" % (name, ", ".join(str(rng.randint(0, 9)) for _ in range(k))))
    return "\n".join(parts) + "\n" + "\n".join(top) + "\nlog('END');\n'done';"


def closure_probes():
    """Deterministic probes of cell sharing: shared within an activation, fresh per activation."""
    P = []
    P.append(("shared-two-closures",
              "function mk(){ var x = 0; return [function(){ x++; return x; }, function(){ return x; }]; }\n"
              "var a = mk(), b = mk(); log(a[0](), a[0](), a[1](), b[1](), b[0](), a[1]());"))
    P.append(("param-capture",
              "function mk(p){ return {set: function(v){ p = v; }, get: function(){ return p; }}; }\n"
              "var a = mk(1), b = mk(2); a.set(10); log(a.get(), b.get());"))
    P.append(("activation-sees-closure-write",
              "function f(){ var x = 1; var g = function(){ x = 5; }; g(); return x; } log(f());"))
    P.append(("closure-sees-later-write",
              "function f(){ var x = 1; var g = function(){ return x; }; x = 7; return g(); } log(f());"))
    P.append(("loop-var-shared",
              "function f(){ var fs = []; for (var i = 0; i < 3; i++) { fs.push(function(){ return i; }); } return [fs[0](), fs[1](), fs[2]()]; } log(f());"))
    P.append(("three-level-pass-through",
              "function a(x){ return function(){ return function(){ x++; return x; }; }; } var k = a(1)()(); var h = a(5); var h1 = h(), h2 = h(); log(k, h1(), h2(), h1());"))
    P.append(("named-funcexpr-self",
              "var fact = function me(n){ return n <= 1 ? 1 : n * me(n - 1); }; var g = fact; fact = null; log(g(5));"))
    P.append(("arguments-object",
              "function f(a, b){ return [arguments.length, arguments[0], arguments[2]]; } log(f(1), f(1, 2, 3));"))
    P.append(("arguments-in-closure",
              "function f(a){ var n = arguments.length; return function(){ return n + a; }; } log(f(1, 2, 3)());"))
    P.append(("recursion-fresh-cells",
              "function r(n){ var x = n; var g = function(){ return x; }; if (n > 0) { var inner = r(n - 1); return [g()].concat(inner); } return [g()]; } log(r(3));"))
    P.append(("sibling-closures-share",
              "function mk(){ var c = 0; function inc(){ c++; } function get(){ return c; } return {inc: inc, get: get}; } var o = mk(); o.inc(); o.inc(); var p = mk(); p.inc(); log(o.get(), p.get());"))
    P.append(("callback-captures",
              "function f(){ var s = 0; [1, 2, 3].forEach(function(v){ s += v; }); return s; } log(f());"))
    P.append(("arrow-captures",
              "function f(){ var s = 10; var g = (v) => s + v; s = 20; return g(1); } log(f());"))
    P.append(("catch-param-capture",
              "function f(){ var g; try { throw 5; } catch (e) { g = function(){ return e; }; } return g(); } log(f());"))
    P.append(("func-decl-capture",
              "function outer(){ var v = 3; function inner(){ return v * 2; } v = 4; return inner(); } log(outer());"))
    P.append(("same-name-different-levels",
              "function a(x){ return function(x2){ var x = x2 + 1; return function(){ return x; }; }; } log(a(1)(5)());"))
    # closures created in every syntactic position of a construct, and capturing every kind of loop variable
    P.append(("own-name-shadowed-by-var", "function f(){ var f; return typeof f; } var h = function g(){ var g; return typeof g; }; log(f(), h());"))
    P.append(("own-name-shadowed-by-param", "var h = function g(g){ return typeof g; }; function f2(f2){ return typeof f2; } log(h(), f2(), h(1), f2('s'));"))
    P.append(("own-name-visible-and-assignable", "var h = function g(){ return typeof g; }; function f(){ return typeof f; } var k = function me(n){ return n ? me(n - 1) + 1 : 0; }; log(h(), f(), k(3));"))
    P.append(("own-name-shadowed-by-inner-declaration", "var h = function g(){ function g(){ return 'inner'; } return g(); }; var h2 = function g2(){ var g2 = 5; return function(){ return g2; }; }; log(h(), h2()());"))
    P.append(("own-name-captured-by-closure", "var h = function self(n){ return function(){ return typeof self + n; }; }; log(h(1)(), h(2)());"))
    # every non-arrow function has its own `arguments`: a nested function (called or not, reachable or not) that mentions its own
    # does not change what the enclosing one reads; an arrow's `arguments` is the enclosing function's
    P.append(("arguments-own-with-nested-mention", "function outer(){ var n = arguments.length; var inner = function(){ return arguments.length; }; return n * 10 + inner(1, 2); } log(outer(7, 8, 9));"))
    P.append(("arguments-own-with-uncalled-nested-mention", "function outer(){ var s = 0; for (var i = 0; i < arguments.length; i++) { s += arguments[i]; } if (s > 100) { return s; } function helper(){ return arguments[0]; } return s + 1; } log(outer(1, 2, 3), outer(200));"))
    P.append(("arguments-own-with-nested-after-return", "function outer(){ return arguments.length; function never(){ return arguments; } } log(outer(), outer(1), outer(1, 2));"))
    P.append(("arguments-in-method-with-nested", "var o = {m: function(){ var self = arguments; return [1, 2].map(function(x){ return arguments.length + self.length + x; }); }}; log(o.m(5, 6, 7, 8));"))
    P.append(("arguments-nested-two-levels", "function a(){ var x = arguments[0]; function b(){ var y = arguments[0]; function c(){ return arguments[0]; } return [y, c(3)]; } return [x, b(2)]; } log(a(1));"))
    P.append(("catch-param-named-like-captured-var", "function f(){ var e = 0; var g = function(){ return e; }; try { throw 5; } catch (e) { return e; } } log(f());"))
    P.append(("catch-param-closure-at-program-level", "var out = []; try { throw 7; } catch (q) { out.push(q); [1].forEach(function(){ out.push(q); }); } log(out);"))
    P.append(("catch-param-closure-in-callback", "function f(){ var out = []; try { throw 7; } catch (q) { [1, 2].forEach(function(v){ out.push(q + v); }); } return out; } log(f());"))
    P.append(("catch-param-named-like-param", "function f(p){ try { throw 9; } catch (p) { return p; } } log(f(1));"))
    P.append(("catch-param-arrow-at-program-level", "var g; try { null.x; } catch (err) { g = () => err.name; } log(g());"))
    P.append(("catch-param-nested-catch", "function f(){ try { throw 1; } catch (a) { try { throw 2; } catch (b) { return (function(){ return [a, b]; })(); } } } log(f());"))
    P.append(("catch-param-in-loop-closures", "function f(){ var fs = []; for (var i = 0; i < 3; i++) { try { throw i * 10; } catch (e) { fs.push(function(){ return e; }); } } return fs.map(function(g){ return g(); }); } log(f());"))
    P.append(("forin-var-captured", "function f(o){ var fs = []; for (var k in o) { fs.push(function(){ return k; }); } return fs.map(function(g){ return g(); }); } log(f({a: 1, b: 2}));"))
    P.append(("forof-var-captured", "function f(o){ var fs = []; for (var k of o) { fs.push(function(){ return k; }); } return fs.map(function(g){ return g(); }); } log(f([1, 2]));"))
    P.append(("forin-predeclared-captured", "function f(o){ var k, g = function(){ return k; }; var seen = []; for (k in o) { seen.push(g()); } k = 'z'; return seen.concat(g()); } log(f({a: 1, b: 2}));"))
    P.append(("forin-outer-function-var", "function f(){ var k = 'init'; (function(){ for (k in {p: 1, q: 2}) {} })(); return [k, typeof q]; } log(f());"))
    P.append(("forof-outer-function-var", "function f(){ var v = 0; (function(){ for (v of [7, 8]) {} })(); return v; } log(f());"))
    P.append(("forin-after-loop", "function f(o){ for (var k in o) {} return (function(){ return k; })(); } log(f({a: 1}));"))
    P.append(("closure-in-while-test", "function f(){ var i = 0, gs = []; while (gs.push(function(){ return i; }) < 3) { i++; } return gs.map(function(g){ return g(); }); } log(f());"))
    P.append(("closure-in-for-test", "function f(){ var gs = []; for (var i = 0; gs.push(function(){ return i; }) < 3; i++) {} return gs.map(function(g){ return g(); }); } log(f());"))
    P.append(("closure-in-for-update", "function f(){ var gs = []; for (var i = 0; i < 3; gs.push(function(){ return i; }), i++) {} return gs.map(function(g){ return g(); }); } log(f());"))
    P.append(("closure-in-for-init", "function f(){ var g; for (var i = (g = function(){ return i; }, 0); i < 3; i++) {} return g(); } log(f());"))
    P.append(("closure-in-dowhile-test", "function f(){ var gs = [], i = 0; do { i++; } while (gs.push(function(){ return i; }) < 3); return gs.map(function(g){ return g(); }); } log(f());"))
    P.append(("closure-in-if-test", "function f(){ var x = 1, g; if ((g = function(){ return x; })) { x = 2; } return g(); } log(f());"))
    P.append(("closure-in-switch-discriminant", "function f(){ var x = 1, g; switch ((g = function(){ return x; }, x)) { case 1: x = 5; } return g(); } log(f());"))
    P.append(("closure-in-case-test", "function f(){ var x = 1, g; switch (1) { case (g = function(){ return x; }, 1): x = 6; } return g(); } log(f());"))
    P.append(("closure-in-forin-iterable", "function f(){ var x = 1, g; for (var k in (g = function(){ return x; }, {a: 1})) { x = 7; } return g(); } log(f());"))
    P.append(("closure-in-return-and-throw", "function f(){ var x = 1; try { throw function(){ return x; }; } catch (g) { x = 8; return g(); } } log(f());"))
    P.append(("closure-in-ternary-and-args", "function f(c){ var x = 1; var g = c ? function(){ return x; } : null; x = 9; return [g(), [function(){ return x; }][0]()]; } log(f(true));"))
    P.append(("closure-in-label-and-block", "function f(){ var x = 1, g; lab: { { g = function(){ return x; }; } x = 10; } return g(); } log(f());"))
    # every way of reading / writing a captured variable, in the declaring function and in the closure
    P.append(("captured-var-every-access",
              "function f(p){ var x = 1, u; var get = function(){ return [x, p, typeof u]; }; var r = [typeof x, typeof p, typeof u]; "
              "x += 5; r.push(x); x *= 2; r.push(x); x -= 1; r.push(x); x++; r.push(x); ++x; r.push(x); r.push(x--); r.push(--x); x <<= 1; r.push(x); x **= 2; r.push(x); "
              "p += 'q'; p += 'r'; r.push(p); u = typeof x; r.push(u, x ? 'T' : 'F', -x, !x, [x][0], {k: x}.k, (x, x)); return r.concat(get()); } log(f('P'));"))
    P.append(("captured-var-closure-side-access",
              "function f(p){ var x = 1; var bump = function(){ x += 5; x++; p += '!'; return [typeof x, typeof p, x, p]; }; var a = bump(); x += 1; var b = bump(); return [a, b, x, p]; } log(f('s'));"))
    P.append(("captured-var-in-loops",
              "function f(){ var acc = 1, fs = []; for (var i = 1; i <= 3; i++) { acc *= 3; fs.push(function(){ return acc; }); } acc -= 4; return [acc, fs[0](), fs[2](), typeof acc, typeof i]; } log(f());"))
    # a variable mentioned by the inner function in exactly ONE syntactic role must still be captured by reference
    roles = {
        "computed-key": ("0", "2", "arr[V]"), "computed-key-object": ("'p'", "'q'", "obj[V]"), "literal-computed-key": ("'p'", "'q'", "Object.keys({[V]: 1})[0]"),
        "shorthand-property": ("1", "2", "({V}).V"), "property-value": ("1", "2", "({k: V}).k"), "call-argument": ("1", "2", "id(V)"), "callee": ("one", "two", "V()"),
        "member-object": ("obj", "obj2", "V.p"), "new-callee": ("K1", "K2", "new V().tag"), "unary": ("1", "2", "-V"), "typeof": ("1", "'s'", "typeof V"), "array-element": ("1", "2", "[V][0]"),
        "condition": ("0", "1", "V ? 'T' : 'F'"), "logical": ("0", "5", "V || 'zero'"), "binary-right": ("1", "2", "10 + V"), "comparison": ("1", "5", "V > 3"),
        "assignment-source": ("1", "2", "(tmp = V, tmp)"), "compound-source": ("1", "2", "(tmp = 10, tmp += V, tmp)"), "in-operand": ("'p'", "'zz'", "V in obj"),
        "instanceof-rhs": ("K1", "K2", "(new K2()) instanceof V"), "spread-like-apply": ("[1]", "[1, 2]", "id.apply(null, V)"), "nested-call-arg": ("1", "2", "id(id([V])[0])"),
        "template-concat": ("1", "2", "'' + V + ''"), "sequence": ("1", "2", "(0, V)"), "index-of-index": ("0", "1", "arr[[1, 2][V]]"), "delete-key": ("'p'", "'q'", "(function () { var c = {p: 1, q: 2}; delete c[V]; return Object.keys(c).join(); })()"),
    }
    for rn, (i1, i2, expr) in roles.items():
        e = expr.replace("V", "vv")
        for kind, mk in (("function", "function () { return %s; }"), ("arrow", "() => %s"), ("nested", "function () { return (function () { return %s; })(); }")):
            P.append(("role-%s-%s" % (rn, kind),
                      "function id(x) { return x; } function one() { return 1; } function two() { return 2; } function K1() { this.tag = 'k1'; } function K2() { this.tag = 'k2'; }\n"
                      "function f() { var tmp, arr = [10, 20, 30], obj = {p: 'P', q: 'Q'}, obj2 = {p: 'P2'}; var vv = %s; var g = %s; var before = g(); vv = %s; return [before, g()]; } log(f());"
                      % (i1, mk % e, i2)))
    P.append(("sibling-blocks-in-loop", "var out = []; for (var i = 0; i < 3; i++) { { out.push('a' + i); } { if (i === 1) continue; out.push('b' + i); } } log(out);"))
    P.append(("sibling-blocks-in-if", "var out = []; if (true) { { out.push(1); } { out.push(2); } { { out.push(3); } { out.push(4); } } } log(out);"))
    P.append(("sibling-blocks-closures", "function f() { var n = 0, fs = []; { { fs.push(function () { n++; return 'A' + n; }); } { fs.push(function () { n++; return 'B' + n; }); } } return [fs.length, fs[0](), fs[1](), n]; } log(f());"))
    P.append(("sibling-blocks-labelled", "var out = []; lab: { { out.push('x'); } { out.push('y'); break lab; } { out.push('z'); } } log(out);"))
    P.append(("sibling-blocks-in-function-and-switch", "function g(k) { var out = []; { out.push(0); } { out.push(1); } switch (k) { case 1: { out.push('c1'); } { out.push('c1b'); } break; default: { { out.push('d'); } { out.push('e'); } } } return out; } log(g(1), g(2));"))
    P.append(("left-to-right",
              "function t(k){ log(k); return k; } var o = {m: function(a, b){ return a + b; }}; log(t(1) + t(2) * t(3), o.m(t(4), t(5)), [t(6), t(7)][t(0)], t(8) < t(9), (t(10), t(11)));"))
    P.append(("assignment-order",
              "function t(k){ log(k); return k; } var o = {}; var a = [0, 0]; o[t('k')] = t('v'); a[t(1)] = t(2); log(o.k, a);"))
    P.append(("compound-order",
              "function t(k){ log(k); return k; } var x = 1; x += t(2); var o = {p: 1}; o.p += t(3); log(x, o.p);"))
    P.append(("call-args-before-callee-body",
              "function t(k){ log(k); return k; } function f(a, b){ log('body'); return a - b; } log(f(t(5), t(3)));"))
    P.append(("short-circuit",
              "function t(k, v){ log(k); return v; } log(t(1, 0) && t(2, 1), t(3, 1) || t(4, 1), t(5, 1) ? t(6, 'a') : t(7, 'b'));"))
    P.append(("hoisted-function-use-before-def", "log(typeof hf, hf()); function hf(){ return 'hoisted'; }"))
    P.append(("hoisted-var-undefined", "log(typeof hv); var hv = 1; log(hv);"))
    P.append(("hoisted-var-in-function", "function f(){ log(typeof hv2); var hv2 = 1; return hv2; } log(f());"))
    P.append(("function-in-function-hoist", "function f(){ return g(); function g(){ return 'inner'; } } log(f());"))
    return [(n, s + "\nlog('END');\n'done';") for n, s in P]


def completion_probes():
    """(name, source) pairs; evaluated in sloppy mode (no directive prologue, which would itself be a value)."""
    P = {
        "expr": "1; 2;", "if-true": "if (true) { 5; }", "if-false": "if (false) { 5; }", "if-else": "if (false) 1; else 2;",
        "block": "{ 1; { 2; } }", "empty": ";", "empty-block": "{}", "var": "3; var x = 1;", "nested-if": "if (true) { if (true) { 7; } }",
        "function-decl-last": "4; function f(){}", "string": "'a' + 'b';", "after-loop": "for (var i = 0; i < 2; i++) { i; }",
        "object-literal-expr": "({a: 1}).a;", "undefined": "undefined;", "null": "null;", "array": "[1, [2, 3]];",
    }
    return sorted(P.items())


# ---------- closure-heavy programs (C15, C05) --------------------------------------------
def closure_heavy(rng, levels=None):
    """Many locals/params per function, captured and pass-through variables over 3-4 nesting levels,
    named function expressions, arguments, arrows, names reused at different levels."""
    n = [0]
    names_pool = ["alpha", "beta", "gamma", "delta", "eps", "zeta", "eta", "theta", "iota", "kappa", "lam", "mu",
                  "nu", "xi", "omi", "pi", "rho", "sig", "tau", "ups", "phi", "chi", "psi", "ome"]

    def fn(level, visible, maxlevel):
        n[0] += 1
        k = rng.randint(0, 4)
        params = rng.sample(names_pool, k)
        nloc = rng.randint(3, 10)
        locs = [x for x in rng.sample(names_pool, nloc) if x not in params]
        mine = params + locs
        body = []
        for i, v in enumerate(locs):
            src = rng.choice(visible + params + locs[:i] + ["1", "2", "3"]) if (visible or params or i) else str(i)
            body.append("var %s = %s + %d;" % (v, src if src not in locs[i:] else str(i), i))
        vis2 = list(dict.fromkeys(visible + mine))
        if level < maxlevel:
            kids = rng.randint(1, 3)
            for j in range(kids):
                kind = rng.random()
                inner = fn(level + 1, vis2, maxlevel)
                kn = "k%d_%d" % (n[0], j)
                if kind < 0.4:
                    body.append("var %s = function %s_me(%s) { %s };" % (kn, kn, inner[0], inner[1]))
                elif kind < 0.7:
                    body.append("function %s(%s) { %s }" % (kn, inner[0], inner[1]))
                else:
                    body.append("var %s = (%s) => { %s };" % (kn, inner[0], inner[1]))
                args = ", ".join(rng.choice(vis2 + ["7"]) for _ in range(rng.randint(0, 3)))
                body.append("log('%s', %s(%s));" % (kn, kn, args))
        # mutate some captured variables, read others, use arguments
        for v in rng.sample(vis2, min(len(vis2), rng.randint(1, 4))):
            body.append("%s = %s + 1;" % (v, v))
        reads = rng.sample(vis2, min(len(vis2), rng.randint(2, 6)))
        ret = "return [" + ", ".join(reads) + (", arguments.length" if rng.random() < 0.5 else "") + "];"
        return ", ".join(params), " ".join(body) + " " + ret

    maxlevel = levels or rng.randint(2, 3)
    p, b = fn(0, [], maxlevel)
    nargs = len(p.split(",")) if p else 0
    return ("function root(%s) { %s }\nlog('root', root(%s));\nlog('again', root());\n'done';"
            % (p, b, ", ".join(str(i * 10) for i in range(nargs))))


# ---------- hoisting: function declarations anywhere among the statements of a body -------------------------------
def hoisting_program(rng):
    """A body (program, function body, arrow block body, nested function) whose function declarations sit at random positions
    among statements that use them before and after: typeof, calls, closures calling later siblings, a var of the same name,
    a name declared twice."""
    k = rng.randint(1, 5)
    m = rng.randint(1, 5)
    names = ["h%d" % i for i in range(k)]
    items = []
    for i, nm in enumerate(names):
        other = rng.choice(names)
        body = rng.choice(["return %d;" % i, "return typeof %s + ':%d';" % (other, i), "return '%d>' + (n > 0 ? %s(n - 1) : 'end');" % (i, other), "log('in', '%s'); return %d;" % (nm, i)])
        items.append("function %s(n) { %s }" % (nm, body))
    if rng.random() < 0.3:
        dup = rng.choice(names)
        items.append("function %s(n) { return 'second-%s'; }" % (dup, dup))
    for j in range(m):
        nm = rng.choice(names)
        items.append(rng.choice([
            "log('s%d', typeof %s, %s);" % (j, nm, ", ".join("typeof " + x for x in names)),
            "log('c%d', %s(2));" % (j, nm),
            "var later%d = function () { return %s(1); }; log('l%d', later%d());" % (j, nm, j, j),
            "var %s_copy%d = %s; log('v%d', typeof %s_copy%d);" % (nm, j, nm, j, nm, j),
            "if (typeof %s === 'function') { log('t%d', %s(0)); }" % (nm, j, nm),
            "var %s = %d; log('shadow%d', typeof %s);" % (nm, j, j, nm) if rng.random() < 0.3 else "log('p%d', %s.length, %s.name);" % (j, nm, nm),
        ]))
    rng.shuffle(items)
    body = "\n".join(items)
    place = rng.random()
    if place < 0.35:
        return body + "\nlog('END');"
    if place < 0.6:
        return "function outer() {\n" + body + "\nreturn 'r';\n}\nlog('o', outer());\nlog('END');"
    if place < 0.75:
        return "var outer = () => {\n" + body + "\nreturn 'r';\n};\nlog('o', outer());\nlog('END');"
    if place < 0.9:
        return "function a() { function b() {\n" + body + "\nreturn 'r'; } return b(); }\nlog('o', a());\nlog('END');"
    return "log('o', (function () {\n" + body + "\nreturn 'r';\n})());\nlog('END');"


# ---------- loops that are the FIRST code of their body (jump targets at and near bytecode offset 0) ----------------
def first_statement_loops():
    """(name, source): every loop kind as the very first statement of a function / arrow / program (only bare declarations before
    it), driven by a parameter, with every exit kind from the loop body and from constructs nested in it."""
    out = []
    heads = {"while": "while (n-- > 0) { %s }", "for-notest-init": "for (; n-- > 0;) { %s }", "for-update": "for (; n > 0; n--) { %s }", "do-while": "do { %s } while (--n > 0);",
             "for-in": "for (var k in o) { n--; %s }", "for-of": "for (var v of a) { n--; %s }", "while-true-break": "while (true) { if (n-- <= 0) break; %s }",
             "labelled-while": "L0: while (n-- > 0) { %s }", "switch-first": "switch (n) { case 3: n--; %s case 2: out.push('c2'); break; default: out.push('d'); }"}
    bodies = {"continue": "if (n % 2) continue; out.push(n);", "break": "if (n === 1) break; out.push(n);", "plain": "out.push(n);",
              "continue-from-for-in": "for (var q in {p: 1, r: 2}) { if (n % 2) continue L0; out.push(n + q); }", "continue-from-switch": "switch (n % 2) { case 1: continue; default: out.push(n); }",
              "break-from-nested": "for (var j = 0; j < 2; j++) { if (j) break; out.push(n + ':' + j); }", "continue-in-try": "try { if (n % 2) continue; out.push(n); } finally { out.push('f'); }",
              "nested-while-first": "var m = 2; while (m-- > 0) { if (m) continue; out.push(n + '/' + m); }", "return": "if (n === 1) return out.join() + '|ret'; out.push(n);",
              "continue-cond-expr": "n % 2 ? out.push('odd') : out.push('even'); if (n > 100) continue;"}
    for hn, hd in heads.items():
        for bn, bd in bodies.items():
            if "continue" in bd and hn == "switch-first":
                continue
            if "L0" in bd and hn != "labelled-while":
                continue
            if "return" in bd:
                wrappers = ["function f(n, o, a) { %s out.push('end'); return out.join(); } log(f(N, {x: 1, y: 2, z: 3}, [1, 2, 3, 4]));",
                            "var f = (n, o, a) => { %s out.push('end'); return out.join(); }; log(f(N, {x: 1, y: 2, z: 3}, [1, 2, 3, 4]));"]
            else:
                wrappers = ["function f(n, o, a) { %s out.push('end'); return out.join(); } log(f(N, {x: 1, y: 2, z: 3}, [1, 2, 3, 4]));",
                            "var f = (n, o, a) => { %s out.push('end'); return out.join(); }; log(f(N, {x: 1, y: 2, z: 3}, [1, 2, 3, 4]));",
                            "function f(n, o, a) { var unused; %s out.push('end'); return out.join(); } log(f(N, {x: 1, y: 2, z: 3}, [1, 2, 3, 4]));",
                            "var f = function (n, o, a) { %s out.push('end'); return out.join(); }; log(f(N, {x: 1, y: 2, z: 3}, [1, 2, 3, 4]));",
                            "log(new Function('n', 'o', 'a', 'out', %r)(N, {x: 1, y: 2, z: 3}, [1, 2, 3, 4], out));"]
            loop = hd.replace("%s", bd)
            for wi, w in enumerate(wrappers):
                for N in (3, 4):
                    if "%r" in w:
                        src = "var out = []; " + (w % (loop + " out.push('end'); return out.join();")).replace("N", str(N), 1)
                    else:
                        src = "var out = []; " + (w % loop).replace("N", str(N), 1)
                    out.append((("first-loop", hn, bn, wi, N), src + "\nlog('END');"))
            # the loop as the very first code of the PROGRAM (host-provided names only)
            if "return" not in bd and hn != "while-true-break":
                for N in (3, 4):
                    prog = loop.replace("out.push(", "log(").replace("o)", "{x: 1, y: 2, z: 3})").replace(" a)", " [1, 2, 3, 4])")
                    out.append((("first-loop-program", hn, bn, 0, N), "var n, k, v, q, j, m;\n" + ("n = %d; " % N if False else "") + prog.replace("n-- > 0", "(n = (n === undefined ? %d : n) - 1) >= 0" % N, 1) + "\nlog('END');"))
    return out


def label_programs():
    """(name, source): one, two and three labels stacked on one statement (loop of every kind, block, switch) with break / continue
    naming each of them, from the body and from constructs nested in it."""
    out = []
    loops = {"for": "for (var i = 0; i < 4; i++) { %s }", "while": "var i = -1; LABELS while (++i < 4) { %s }", "do": "var i = -1; LABELS do { i++; %s } while (i < 3);",
             "for-in": "var i = -1; LABELS for (var k in {p: 1, q: 2, r: 3, s: 4}) { i++; %s }", "for-of": "var i = -1; LABELS for (var v of [1, 2, 3, 4]) { i++; %s }"}
    for ln, lp in loops.items():
        for labels in (["a"], ["a", "b"], ["a", "b", "c"]):
            for target in labels:
                for kind in ("continue", "break"):
                    for nest in ("%s", "switch (i) { case 1: %s default: out.push('d' + i); }", "for (var j = 0; j < 2; j++) { %s out.push('j' + j); }", "try { %s } finally { out.push('f'); }", "{ inner: { %s } }"):
                        jump = "if (i % 2) " + kind + " " + target + ";"
                        body = (nest % jump) + " out.push(i);"
                        lab = " ".join(l + ":" for l in labels)
                        src = lp % body
                        src = src.replace("LABELS", lab) if "LABELS" in src else lab + " " + src
                        for wrap in ("var out = []; %s log(out.join());", "function f() { var out = []; %s return out.join(); } log(f());"):
                            out.append((("labels", ln, "+".join(labels) + ">" + kind + " " + target, nest[:6], wrap[:3]), (wrap % src) + "\nlog('END');"))
    # labelled blocks and nested labelled loops
    out.append((("labels", "block", "a+b>break a", "", ""), "var out = []; a: b: { out.push(1); if (out.length) break a; out.push(2); } out.push(3); log(out.join()); log('END');"))
    out.append((("labels", "nested", "outer+inner", "", ""), "var out = []; o1: o2: for (var i = 0; i < 3; i++) { i1: i2: for (var j = 0; j < 3; j++) { if (j === 1) continue o1; if (i === 2) break o2; out.push(i + ':' + j); } } log(out.join()); log('END');"))
    return out
