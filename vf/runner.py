"""Subprocess worker pools speaking one-JSON-line-per-batch over pipes.

Not multiprocessing.Pool (which hangs when a child dies): every worker is a
plain subprocess, every batch has a real-time watchdog, a worker that stops
answering is killed and respawned and the batch is bisected down to the single
case that hangs or crashes, which is reported as {"hang": true} / {"crash": ...}.
"""
import json
import os
import queue
import subprocess
import tempfile
import threading

from .common import NCPU, PY, ROOT, child_env


class Proc:
    def __init__(self, argv, env, cwd):
        self.argv, self.env, self.cwd = argv, env, cwd
        self.p = None
        self.errf = None
        self.spawn()

    def spawn(self):
        self.errf = tempfile.TemporaryFile(mode="w+b")
        self.p = subprocess.Popen(self.argv, stdin=subprocess.PIPE, stdout=subprocess.PIPE,
                                  stderr=self.errf, env=self.env, cwd=self.cwd)

    def kill(self):
        try:
            self.p.kill()
            self.p.wait(timeout=5)
        except Exception:
            pass

    def stderr_tail(self, n=1500):
        try:
            self.errf.seek(0)
            return self.errf.read()[-n:].decode("utf-8", "replace")
        except Exception:
            return ""

    def call(self, msg, timeout):
        """Send one JSON line, read one JSON line. Returns (obj, None) or (None, reason)."""
        if self.p.poll() is not None:
            self.spawn()
        fired = []

        def on_timeout():
            fired.append(1)
            self.kill()

        t = threading.Timer(timeout, on_timeout)
        t.start()
        try:
            data = (json.dumps(msg, ensure_ascii=True) + "\n").encode()
            self.p.stdin.write(data)
            self.p.stdin.flush()
            line = self.p.stdout.readline()
        except (BrokenPipeError, OSError):
            line = b""
        finally:
            t.cancel()
        if not line:
            reason = "hang" if fired else "crash"
            tail = self.stderr_tail()
            rc = self.p.poll()
            self.kill()
            self.spawn()
            return None, {"reason": reason, "rc": rc, "stderr": tail}
        try:
            return json.loads(line), None
        except Exception as e:  # protocol garbage (stdout pollution)
            self.kill()
            self.spawn()
            return None, {"reason": "garbage", "rc": None, "stderr": repr(line[:300]) + repr(e)}

    def close(self):
        try:
            self.p.stdin.close()
        except Exception:
            pass
        self.kill()
        try:
            self.errf.close()
        except Exception:
            pass


class Pool:
    """Pool of identical JSONL workers. map() preserves order."""

    def __init__(self, argv, n=NCPU, env=None, cwd=None):
        self.argv = argv
        self.n = n
        self.env = env or child_env()
        self.cwd = str(cwd or ROOT)
        self.procs = []
        self.lock = threading.Lock()
        self.stats = {"batches": 0, "hangs": 0, "crashes": 0, "respawns": 0}

    def _get_proc(self):
        with self.lock:
            if self.procs:
                return self.procs.pop()
        return Proc(self.argv, self.env, self.cwd)

    def _put_proc(self, pr):
        with self.lock:
            self.procs.append(pr)

    def map(self, head, cases, batch=50, timeout=60.0, single_timeout=None):
        """head: dict merged into every message; cases: list. Returns list of results."""
        single_timeout = single_timeout or timeout
        results = [None] * len(cases)
        q = queue.Queue()
        for i in range(0, len(cases), batch):
            q.put(list(range(i, min(i + batch, len(cases)))))

        def work():
            pr = self._get_proc()
            try:
                while True:
                    try:
                        idxs = q.get_nowait()
                    except queue.Empty:
                        return
                    msg = dict(head, cases=[cases[i] for i in idxs])
                    to = timeout if len(idxs) > 1 else single_timeout
                    obj, fail = pr.call(msg, to)
                    self.stats["batches"] += 1
                    if fail is None and isinstance(obj, dict) and "results" in obj \
                            and len(obj["results"]) == len(idxs):
                        for i, r in zip(idxs, obj["results"]):
                            results[i] = r
                        continue
                    if fail is None:
                        fail = {"reason": "bad_response", "rc": None, "stderr": json.dumps(obj)[:500]}
                    self.stats["respawns"] += 1
                    if len(idxs) > 1:
                        mid = len(idxs) // 2
                        q.put(idxs[:mid])
                        q.put(idxs[mid:])
                    else:
                        if fail["reason"] == "hang":
                            self.stats["hangs"] += 1
                        else:
                            self.stats["crashes"] += 1
                        results[idxs[0]] = {"_fail": fail["reason"], "rc": fail["rc"],
                                            "stderr": fail["stderr"]}
            finally:
                self._put_proc(pr)

        nthreads = max(1, min(self.n, q.qsize()))
        ths = [threading.Thread(target=work, daemon=True) for _ in range(nthreads)]
        for t in ths:
            t.start()
        for t in ths:
            t.join()
        return results

    def close(self):
        with self.lock:
            for pr in self.procs:
                pr.close()
            self.procs = []


def engine_pool(n=NCPU, env_extra=None, pyflags=()):
    argv = [PY, "-X", "faulthandler", *pyflags, "-m", "vf.worker"]
    return Pool(argv, n=n, env=child_env(env_extra))


def node_pool(n=NCPU):
    from .common import ROOT as R
    argv = ["/usr/bin/node", "--stack-size=2000", str(R / "vf" / "oracle" / "node_oracle.js")]
    return Pool(argv, n=n, env=dict(os.environ))


def have_node():
    return os.path.exists("/usr/bin/node")
