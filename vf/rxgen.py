"""Regex pattern generators over the supported syntax: exhaustive by size, and seeded random."""
import itertools

ATOMS = ["a", "b", "c", ".", "\\w", "\\d", "\\s", "\\W", "[ab]", "[^a]", "[a-c]", "[b-c]", "^", "$", "\\b", "\\B", "\\1"]
QUANTS = ["*", "+", "?", "*?", "+?", "??", "{2}", "{1,2}", "{0,1}", "{2,}", "{1,2}?", "{0,2}"]
WRAPS = ["(%s)", "(?:%s)", "(?=%s)", "(?!%s)", "(?<=%s)", "(?<!%s)"]


def needs_group(p):
    """Does p need a group before a quantifier can apply to the whole of it?"""
    if len(p) == 1 or p in ATOMS:
        return False
    if p.startswith("(") and p.endswith(")") and balanced(p[1:-1]):
        return False
    if p.startswith("[") and p.endswith("]") and "[" not in p[1:]:
        return False
    return True


def balanced(s):
    d = 0
    i = 0
    while i < len(s):
        ch = s[i]
        if ch == "\\":
            i += 2
            continue
        if ch == "(":
            d += 1
        elif ch == ")":
            d -= 1
            if d < 0:
                return False
        i += 1
    return d == 0


def by_size(maxn):
    """All pattern strings built from at most maxn grammar nodes (deduplicated, insertion-ordered)."""
    sizes = {1: list(ATOMS)}
    for n in range(2, maxn + 1):
        out = []
        for x in sizes[n - 1]:
            for q in QUANTS:
                if x in ("^", "$", "\\b", "\\B") or x.startswith(("(?=", "(?!", "(?<")):
                    continue   # quantified assertions are outside the supported syntax
                if x.endswith(tuple(QUANTS)) and not x.endswith(")") and not x.endswith("]"):
                    continue   # no double quantifier
                out.append(("(?:%s)" % x if needs_group(x) else x) + q)
            for w in WRAPS:
                out.append(w % x)
            out.append(x + "|")
            out.append("|" + x)
        for k in range(1, n):
            for x in sizes[k]:
                for y in sizes.get(n - k, []):
                    out.append(x + y)
                for y in sizes.get(n - 1 - k, []) if n - 1 - k >= 1 else []:
                    out.append(x + "|" + y)
        sizes[n] = list(dict.fromkeys(out))
    allp = []
    for n in range(1, maxn + 1):
        allp += sizes[n]
    # a backreference is only generated after its group exists
    res = []
    for p in dict.fromkeys(allp):
        i = p.find("\\1")
        if i >= 0:
            pre = p[:i]
            if "(" not in pre.replace("(?", "") or not has_closed_capture(pre):
                continue
        res.append(p)
    return res


def has_closed_capture(pre):
    """True if pre contains a capturing group that is already closed."""
    depth = []
    i = 0
    closed = False
    while i < len(pre):
        ch = pre[i]
        if ch == "\\":
            i += 2
            continue
        if ch == "[":
            j = pre.find("]", i)
            i = j + 1 if j >= 0 else len(pre)
            continue
        if ch == "(":
            depth.append(not pre.startswith("(?", i))
        elif ch == ")":
            if depth and depth.pop():
                closed = True
        i += 1
    return closed


def subjects(alphabet, maxlen):
    out = [""]
    for n in range(1, maxlen + 1):
        out += ["".join(t) for t in itertools.product(alphabet, repeat=n)]
    return out


# ---------------- random patterns ------------------------------------------------------------
R_CHARS = list("abcABC019_ ") + ["\\n", "\\t", "\\.", "\\*", "\\(", "-", ":"]
R_ESC = ["\\d", "\\D", "\\w", "\\W", "\\s", "\\S", "."]
R_CLASS_ITEMS = ["a", "b", "c", "A", "0-9", "a-c", "A-C", "_", " ", "\\d", "\\w", "\\s", "\\n", "x-z", "\\-", "\\]", "."]


class RG:
    def __init__(self, rng, avoid=()):
        self.r = rng
        self.groups = 0       # capturing groups opened so far
        self.closed = 0       # capturing groups closed so far
        self.avoid = set(avoid)
        self.in_lookbehind = 0

    def atom(self):
        r = self.r.random()
        if r < 0.45:
            return self.r.choice(R_CHARS)
        if r < 0.6:
            return self.r.choice(R_ESC)
        if r < 0.75:
            neg = "^" if self.r.random() < 0.3 else ""
            items = "".join(self.r.sample(R_CLASS_ITEMS, self.r.randint(1, 3)))
            return "[" + neg + items + "]"
        if r < 0.82 and self.closed > 0 and "backref" not in self.avoid and not (
                self.in_lookbehind and "lookbehind-captures" in self.avoid):
            return "\\%d" % self.r.randint(1, self.closed)
        if r < 0.9:
            return self.r.choice(["^", "$", "\\b", "\\B"])
        return self.r.choice(R_CHARS)

    def term(self, d):
        r = self.r.random()
        if d <= 0 or r < 0.5:
            a = self.atom()
            quantifiable = a not in ("^", "$", "\\b", "\\B")
        else:
            k = self.r.random()
            if k < 0.45 and not (self.in_lookbehind and "lookbehind-captures" in self.avoid):
                self.groups += 1
                inner = self.alt(d - 1)
                self.closed += 1
                a = "(" + inner + ")"
                quantifiable = True
            elif k < 0.65:
                a = "(?:" + self.alt(d - 1) + ")"
                quantifiable = True
            else:
                kind = self.r.choice(["(?=", "(?!", "(?<=", "(?<!"])
                if "lookbehind" in self.avoid and kind.startswith("(?<"):
                    kind = "(?="
                lb = kind.startswith("(?<")
                self.in_lookbehind += lb
                a = kind + self.alt(d - 1) + ")"
                self.in_lookbehind -= lb
                quantifiable = False
        if quantifiable and self.r.random() < 0.4:
            q = self.r.choice(["*", "+", "?", "*?", "+?", "??", "{2}", "{1,3}", "{0,2}", "{2,}", "{1,2}?"])
            a += q
        return a

    def seq(self, d):
        out = ""
        for _ in range(self.r.randint(1, 4)):
            t = self.term(d)
            # a digit right after \N would read as a longer (legacy octal) escape: keep them apart
            import re
            if re.search(r"\\\d+$", out) and t[:1].isdigit():
                t = "(?:" + t + ")"
            out += t
        return out

    def alt(self, d):
        n = 1 if self.r.random() < 0.7 else self.r.randint(2, 3)
        parts = [self.seq(d) for _ in range(n)]
        if self.r.random() < 0.05:
            parts.append("")
        return "|".join(parts)


def random_pattern(rng, depth=3, avoid=("lookbehind-captures",)):
    return RG(rng, avoid).alt(depth)


def random_subject(rng, maxlen=8):
    alpha = "abcABC019_ \n-.:xyz"
    return "".join(rng.choice(alpha) for _ in range(rng.randint(0, maxlen)))
