"""MANIFEST.setup_cmd: install the harness's pure-Python dependencies offline; verify tools."""
import os
import sys
from .common import DEPS, REPO, ensure_deps

ensure_deps()
ok = (DEPS / ".ok").exists()
print("deps:", "ok" if ok else "FAILED")
print("node:", "present" if os.path.exists("/usr/bin/node") else "absent (differential monitors will report reference_unavailable)")
print("repo:", REPO, "exists" if (REPO / "src" / "microjs").exists() else "MISSING")
sys.exit(0 if ok else 1)
