"""Control-flow skeleton programs (deterministic enumeration) shared by C02 / C05 / C07.

A skeleton is a statement body built from a construct kind, an exit kind and an enclosing
construct; every observable point calls log(k) with a unique k so the order of evaluation and the
path taken are visible without trusting values.
"""
import itertools

# inner constructs: each is a template with {X} = the exit statement placed inside it and uses
# loop variables with a suffix so nesting never clashes.  `iter` constructs hold an iterator or
# discriminant on the operand stack while their body runs.
CONSTRUCTS = {
    "block": "{{ log('b{n}'); {X} log('b{n}e'); }}",
    "if": "if (t({n})) {{ log('i{n}'); {X} }} else {{ log('e{n}'); }}",
    "else": "if (!t({n})) {{ log('i{n}'); }} else {{ log('e{n}'); {X} }}",
    "while": "var w{n} = 0; while (w{n} < 3) {{ w{n}++; log('w{n}', w{n}); {X} log('w{n}e'); }}",
    "dowhile": "var d{n} = 0; do {{ d{n}++; log('d{n}', d{n}); {X} log('d{n}e'); }} while (d{n} < 3);",
    "for": "for (var f{n} = 0; f{n} < 3; f{n}++) {{ log('f{n}', f{n}); {X} log('f{n}e'); }}",
    "forin": "for (var k{n} in {{a: 1, b: 2, c: 3}}) {{ log('k{n}', k{n}); {X} log('k{n}e'); }}",
    "forof": "for (var v{n} of [10, 20, 30]) {{ log('v{n}', v{n}); {X} log('v{n}e'); }}",
    "switch": "switch (t({n}) + 1) {{ case 1: log('s{n}a'); case 2: log('s{n}b'); {X} log('s{n}c'); case 3: log('s{n}d'); break; default: log('s{n}z'); }}",
    "switch-default-first": "switch (5) {{ default: log('s{n}z'); {X} case 1: log('s{n}a'); break; case 2: log('s{n}b'); }}",
    "switch-default-mid": "switch (2) {{ case 1: log('s{n}a'); default: log('s{n}z'); case 2: log('s{n}b'); {X} log('s{n}c'); }}",
    "labelled-block": "L{n}: {{ log('l{n}'); {X} log('l{n}e'); }}",
    "try-catch": "try {{ log('t{n}'); {X} log('t{n}e'); }} catch (e{n}) {{ log('c{n}', e{n}); }}",
    "try-finally": "try {{ log('t{n}'); {X} log('t{n}e'); }} finally {{ log('y{n}'); }}",
    "try-catch-finally": "try {{ log('t{n}'); {X} log('t{n}e'); }} catch (e{n}) {{ log('c{n}', e{n}); }} finally {{ log('y{n}'); }}",
    "in-catch": "try {{ throw 'q{n}'; }} catch (e{n}) {{ log('c{n}', e{n}); {X} log('c{n}e'); }}",
    "in-catch-finally": "try {{ throw 'q{n}'; }} catch (e{n}) {{ log('c{n}', e{n}); {X} log('c{n}e'); }} finally {{ log('y{n}'); }}",
    "in-finally": "try {{ log('t{n}'); }} finally {{ log('y{n}'); {X} log('y{n}e'); }}",
}
LOOPS = {"while", "dowhile", "for", "forin", "forof"}
BREAKABLE = LOOPS | {"switch", "switch-default-first", "switch-default-mid"}

# exit statements; {L} = label of the outer construct when needed
EXITS = {
    "none": "",
    "break": "if (t(90)) break;",
    "continue": "if (t(91)) continue;",
    "break-label": "if (t(92)) break OUT;",
    "continue-label": "if (t(93)) continue OUT;",
    "return": "if (t(94)) return 'R';",
    "return-void": "if (t(98)) return;",
    "throw": "if (t(95)) throw 'T';",
    "throw-expr": "var z = 1 + (t(96) ? thrower('TE') : 0);",
    "throw-callee": "if (t(97)) thrower('TC');",
    "throw-callback": "[1, 2].forEach(function (x) { if (x === 2) throw 'TB'; });",
}

PRELUDE = ("function t(k) { log('t', k); return true; }\n"
           "function thrower(v) { log('thrower', v); throw v; }\n")

# expression contexts of the call that runs the skeleton body (function g)
CONTEXTS = {
    "stmt": "g();",
    "left+": "log('r', g() + '|x');",
    "right+": "log('r', 'x|' + g());",
    "arg0": "log('r', id2(g(), 'b'));",
    "arg1": "log('r', id2('a', g()));",
    "array": "log('r', ['a', g(), 'c']);",
    "prop": "log('r', {p: 'a', q: g()}.q);",
    "cond": "log('r', g() ? 'T' : 'F');",
    "member-callee": "log('r', ({m: function (x) { return 'm' + x; }}).m(g()));",
    "nested-call": "log('r', id2(id2('a', g()), id2(g(), 'd')));",
    # the caller itself holds construct slots (iterator, discriminant) under the operands being computed
    "forin-array": "for (var kk in {a: 1, b: 2}) { log('r', [kk, g()]); }",
    "forof-sum": "for (var vv of [1, 2]) { log('r', vv + g()); }",
    "switch-arg": "switch (1) { case 1: log('r', id2('a', g())); }",
}
CTX_PRELUDE = "function id2(a, b) { return '' + a + ',' + b; }\n"


def legal(outer, inner, ex):
    """Is this combination syntactically/semantically valid JavaScript?"""
    if ex == "break" and not (inner in BREAKABLE or outer in BREAKABLE):
        return False
    if ex == "continue" and not (inner in LOOPS or outer in LOOPS):
        return False
    if ex == "break-label" and outer is None:
        return False
    if ex == "continue-label" and (outer is None or outer not in LOOPS):
        return False
    return True


def body(outer, inner, ex):
    x = EXITS[ex]
    s = CONSTRUCTS[inner].format(n=2, X=x)
    if outer is not None:
        o = CONSTRUCTS[outer].format(n=1, X=s)
        if ex in ("break-label", "continue-label"):
            # label the outer construct: the label must sit directly on the loop/switch/block statement
            if outer in ("while", "dowhile"):
                decl, rest = o.split("; ", 1)
                o = decl + "; OUT: " + rest
            elif outer == "labelled-block":
                o = "OUT: " + o
            else:
                o = "OUT: " + o
        s = o
    return s


def program(outer, inner, ex, ctxname="stmt", wrap_catch=True):
    b = body(outer, inner, ex)
    g = "function g() { log('g'); " + b + " log('ge'); return 'N'; }\n"
    call = CONTEXTS[ctxname]
    if wrap_catch:
        call = "try { " + call + " } catch (E) { log('caught', E); }"
    return PRELUDE + CTX_PRELUDE + g + call + "\nlog('END');\n'done';"


def enumerate_skeletons(depth2=True, contexts=("stmt",)):
    """Yield (id_tuple, source)."""
    kinds = list(CONSTRUCTS)
    outers = [None] + (kinds if depth2 else [])
    for outer, inner, ex in itertools.product(outers, kinds, EXITS):
        if not legal(outer, inner, ex):
            continue
        for c in contexts:
            yield (str(outer), inner, ex, c), program(outer, inner, ex, c)


def override_bodies():
    """(kind, a, b, c, statement): a completion pending in try/catch (return with and without a value, throw, break, normal) that a
    jump out of the finally block overrides; the second family has the abandoned jump leave constructs that hold operand slots
    (for-in / for-of iterators, switch discriminants, a caught exception, inner finally blocks).  The statements expect an
    enclosing loop (continue / break target), a variable I and a function keep(v)."""
    out = []
    pendings = {"return-value": "return [I, I];", "return-call": "return keep(I) + keep(1);", "throw": "throw I;", "throw-expr": "keep(1) + nope.x;", "normal": "keep(I);",
                "catch-rethrows": None, "catch-returns": None, "break-inner": None, "nested-finally": None, "return-void": "return;", "catch-returns-void": None, "nested-finally-void": None}
    exits = {"continue": "continue;", "labelled-continue": "continue;", "cond-continue": "if (I >= 0) continue;"}
    for pn, psrc in pendings.items():
        for en, esrc in exits.items():
            if pn == "catch-rethrows":
                body = "try { throw I; } catch (e) { throw [e, e]; } finally { %s }" % esrc
            elif pn == "catch-returns":
                body = "try { throw I; } catch (e) { return [e, e]; } finally { %s }" % esrc
            elif pn == "catch-returns-void":
                body = "try { throw I; } catch (e) { return; } finally { %s }" % esrc
            elif pn == "break-inner":
                body = "do { try { break; } finally { %s } } while (0);" % ("continue;" if en != "cond-continue" else "if (I < 0) continue;")
            elif pn == "nested-finally":
                body = "try { try { return [I]; } finally { keep(2); } } finally { %s }" % esrc
            elif pn == "nested-finally-void":
                body = "try { try { return; } finally { keep(2); } } finally { %s }" % esrc
            else:
                body = "try { %s } finally { %s }" % (psrc, esrc)
            out.append(("finally-override", pn, en, "", body))
    crossed = {"for-in": "for (var k in {a: 1, b: 2}) { %s }", "for-of": "for (var v of [1, 2]) { %s }", "switch": "switch (I % 2) { case 0: %s default: %s }",
               "for-in>for-of": "for (var k in {a: 1}) { for (var v of [1]) { %s } }", "switch>for-in": "switch (1) { case 1: for (var k in {a: 1}) { %s } }",
               "for-of>try-finally": "for (var v of [1]) { try { %s } finally { keep(v); } }", "for-in>catch": "for (var k in {a: 1}) { try { throw k; } catch (e) { %s } }",
               "while>for-in": "var w = 0; while (w++ < 2) { for (var k in {a: 1}) { %s } }", "labelled-for-of": "L1: for (var v of [1]) { for (;;) { %s } }"}
    jumps = {"return-value": "return [I];", "return-void": "return;", "return-call": "return keep(I) + keep(1);", "throw": "throw I;"}
    outs = {"continue": "continue;", "cond-continue": "if (I >= 0) continue;", "break-do": None, "labelled-break": None}
    for cn, cs in crossed.items():
        for jn, js in jumps.items():
            for on, os_ in outs.items():
                inner = cs.replace("%s", js)
                if on == "break-do":
                    body = "do { try { %s } finally { break; } } while (0);" % inner
                elif on == "labelled-break":
                    body = "OUT: { try { %s } finally { break OUT; } }" % inner
                else:
                    body = "try { %s } finally { %s }" % (inner, os_)
                out.append(("finally-override-crossing", cn, jn, on, body))
    return out
