"""Control-flow skeleton programs (deterministic enumeration) shared by C02 / C05 / C07.

A skeleton is a statement body built from a construct kind, an exit kind and an enclosing
construct; every observable point calls log(k) with a unique k so the order of evaluation and the
path taken are visible without trusting values.
"""
import itertools

# inner constructs: each is a template with {X} = the exit statement placed inside it and uses
# loop variables with a suffix so nesting never clashes.  `iter` constructs hold an iterator or
# discriminant on the operand stack while their body runs.
CONSTRUCTS = {
    "block": "{{ log('b{n}'); {X} log('b{n}e'); }}",
    "if": "if (t({n})) {{ log('i{n}'); {X} }} else {{ log('e{n}'); }}",
    "else": "if (!t({n})) {{ log('i{n}'); }} else {{ log('e{n}'); {X} }}",
    "while": "var w{n} = 0; while (w{n} < 3) {{ w{n}++; log('w{n}', w{n}); {X} log('w{n}e'); }}",
    "dowhile": "var d{n} = 0; do {{ d{n}++; log('d{n}', d{n}); {X} log('d{n}e'); }} while (d{n} < 3);",
    "for": "for (var f{n} = 0; f{n} < 3; f{n}++) {{ log('f{n}', f{n}); {X} log('f{n}e'); }}",
    "forin": "for (var k{n} in {{a: 1, b: 2, c: 3}}) {{ log('k{n}', k{n}); {X} log('k{n}e'); }}",
    "forof": "for (var v{n} of [10, 20, 30]) {{ log('v{n}', v{n}); {X} log('v{n}e'); }}",
    "switch": "switch (t({n}) + 1) {{ case 1: log('s{n}a'); case 2: log('s{n}b'); {X} log('s{n}c'); case 3: log('s{n}d'); break; default: log('s{n}z'); }}",
    "switch-default-first": "switch (5) {{ default: log('s{n}z'); {X} case 1: log('s{n}a'); break; case 2: log('s{n}b'); }}",
    "switch-default-mid": "switch (2) {{ case 1: log('s{n}a'); default: log('s{n}z'); case 2: log('s{n}b'); {X} log('s{n}c'); }}",
    "labelled-block": "L{n}: {{ log('l{n}'); {X} log('l{n}e'); }}",
    "try-catch": "try {{ log('t{n}'); {X} log('t{n}e'); }} catch (e{n}) {{ log('c{n}', e{n}); }}",
    "try-finally": "try {{ log('t{n}'); {X} log('t{n}e'); }} finally {{ log('y{n}'); }}",
    "try-catch-finally": "try {{ log('t{n}'); {X} log('t{n}e'); }} catch (e{n}) {{ log('c{n}', e{n}); }} finally {{ log('y{n}'); }}",
    "in-catch": "try {{ throw 'q{n}'; }} catch (e{n}) {{ log('c{n}', e{n}); {X} log('c{n}e'); }}",
    "in-catch-finally": "try {{ throw 'q{n}'; }} catch (e{n}) {{ log('c{n}', e{n}); {X} log('c{n}e'); }} finally {{ log('y{n}'); }}",
    "in-finally": "try {{ log('t{n}'); }} finally {{ log('y{n}'); {X} log('y{n}e'); }}",
}
LOOPS = {"while", "dowhile", "for", "forin", "forof"}
BREAKABLE = LOOPS | {"switch", "switch-default-first", "switch-default-mid"}

# exit statements; {L} = label of the outer construct when needed
EXITS = {
    "none": "",
    "break": "if (t(90)) break;",
    "continue": "if (t(91)) continue;",
    "break-label": "if (t(92)) break OUT;",
    "continue-label": "if (t(93)) continue OUT;",
    "return": "if (t(94)) return 'R';",
    "return-void": "if (t(98)) return;",
    "throw": "if (t(95)) throw 'T';",
    "throw-expr": "var z = 1 + (t(96) ? thrower('TE') : 0);",
    "throw-callee": "if (t(97)) thrower('TC');",
    "throw-callback": "[1, 2].forEach(function (x) { if (x === 2) throw 'TB'; });",
}

PRELUDE = ("function t(k) { log('t', k); return true; }\n"
           "function thrower(v) { log('thrower', v); throw v; }\n")

# expression contexts of the call that runs the skeleton body (function g)
CONTEXTS = {
    "stmt": "g();",
    "left+": "log('r', g() + '|x');",
    "right+": "log('r', 'x|' + g());",
    "arg0": "log('r', id2(g(), 'b'));",
    "arg1": "log('r', id2('a', g()));",
    "array": "log('r', ['a', g(), 'c']);",
    "prop": "log('r', {p: 'a', q: g()}.q);",
    "cond": "log('r', g() ? 'T' : 'F');",
    "member-callee": "log('r', ({m: function (x) { return 'm' + x; }}).m(g()));",
    "nested-call": "log('r', id2(id2('a', g()), id2(g(), 'd')));",
}
CTX_PRELUDE = "function id2(a, b) { return '' + a + ',' + b; }\n"


def legal(outer, inner, ex):
    """Is this combination syntactically/semantically valid JavaScript?"""
    if ex == "break" and not (inner in BREAKABLE or outer in BREAKABLE):
        return False
    if ex == "continue" and not (inner in LOOPS or outer in LOOPS):
        return False
    if ex == "break-label" and outer is None:
        return False
    if ex == "continue-label" and (outer is None or outer not in LOOPS):
        return False
    return True


def body(outer, inner, ex):
    x = EXITS[ex]
    s = CONSTRUCTS[inner].format(n=2, X=x)
    if outer is not None:
        o = CONSTRUCTS[outer].format(n=1, X=s)
        if ex in ("break-label", "continue-label"):
            # label the outer construct: the label must sit directly on the loop/switch/block statement
            if outer in ("while", "dowhile"):
                decl, rest = o.split("; ", 1)
                o = decl + "; OUT: " + rest
            elif outer == "labelled-block":
                o = "OUT: " + o
            else:
                o = "OUT: " + o
        s = o
    return s


def program(outer, inner, ex, ctxname="stmt", wrap_catch=True):
    b = body(outer, inner, ex)
    g = "function g() { log('g'); " + b + " log('ge'); return 'N'; }\n"
    call = CONTEXTS[ctxname]
    if wrap_catch:
        call = "try { " + call + " } catch (E) { log('caught', E); }"
    return PRELUDE + CTX_PRELUDE + g + call + "\nlog('END');\n'done';"


def enumerate_skeletons(depth2=True, contexts=("stmt",)):
    """Yield (id_tuple, source)."""
    kinds = list(CONSTRUCTS)
    outers = [None] + (kinds if depth2 else [])
    for outer, inner, ex in itertools.product(outers, kinds, EXITS):
        if not legal(outer, inner, ex):
            continue
        for c in contexts:
            yield (str(outer), inner, ex, c), program(outer, inner, ex, c)
