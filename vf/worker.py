"""Engine-side worker: one JSON line in ({mod, fn, opts, cases}), one JSON line out.

stdout carries only the protocol; script output (console.log) is swallowed by
vf.engine, stray prints go to stderr.
"""
import importlib
import json
import os
import sys
import traceback


def _exit_when_orphaned():
    """A worker stuck in a loop of the code under test never reads its stdin again: when the check that started it goes away
    (killed, timed out) the worker must not keep a core busy for hours."""
    import threading
    import time
    parent = os.getppid()
    real_sleep = time.sleep

    def watch():
        while True:
            real_sleep(2.0)
            if os.getppid() != parent:
                os._exit(3)
    threading.Thread(target=watch, daemon=True).start()


def main():
    _exit_when_orphaned()
    proto = os.fdopen(os.dup(1), "w", buffering=1)
    # anything printed by accident goes to stderr, never to the protocol pipe
    os.dup2(2, 1)
    sys.stdout = sys.stderr
    try:
        import resource
        lim = int(os.environ.get("VERIF_RLIMIT_AS", str(6 << 30)))
        resource.setrlimit(resource.RLIMIT_AS, (lim, lim))
    except Exception:
        pass
    sys.setrecursionlimit(int(os.environ.get("VERIF_RECURSION", "1000")))
    cov = None
    if os.environ.get("VERIF_COV"):
        # dev tool (tools/coverage_gaps.sh): which engine lines does the union of the workloads reach?  Never set by a registered command.
        import coverage
        import time
        repo_src = [p for p in sys.path if p.endswith("/src")][0]
        cov = coverage.Coverage(data_file=os.path.join(os.environ["VERIF_COV"], ".coverage"), data_suffix=True, include=[repo_src + "/microjs/*"])
        cov.start()
        last_save = [time.time()]
    mods = {}
    for line in sys.stdin:
        if not line.strip():
            continue
        msg = json.loads(line)
        modname, fn = msg["mod"], msg["fn"]
        try:
            if modname not in mods:
                mods[modname] = importlib.import_module(modname)
            f = getattr(mods[modname], fn)
        except Exception:
            proto.write(json.dumps({"error": traceback.format_exc()[-2000:]}) + "\n")
            continue
        opts = msg.get("opts") or {}
        out = []
        for c in msg["cases"]:
            try:
                out.append(f(c, opts))
            except MemoryError:
                out.append({"_exc": "MemoryError"})
            except BaseException as e:  # harness bug or escaped abort: report, keep going
                if isinstance(e, (KeyboardInterrupt, SystemExit)):
                    raise
                out.append({"_exc": type(e).__name__, "tb": traceback.format_exc()[-1500:]})
        if cov is not None and time.time() - last_save[0] > 3:
            cov.save()      # the pool kills its workers: save as we go
            last_save[0] = time.time()
        proto.write(json.dumps({"results": out}, ensure_ascii=True) + "\n")
        proto.flush()


if __name__ == "__main__":
    main()
